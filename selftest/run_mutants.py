#!/venv/bin/python
"""Detection self-test (not a registered command): apply each mutant of selftest/mutants.py
to a scratch copy of /repo, make sure the repository's own tests still pass there, and
require the property's check to report a VIOLATION (twice, two seeds) and its replay file
to fail on the mutant and pass on /repo.

usage: run_mutants.py [--only C07[,C05]] [--id name] [--tier quick] [--keep]
Results are appended to selftest/RESULTS.md by --write.
"""
import argparse
import json
import os
import re
import shutil
import subprocess
import sys
import tempfile

HERE = os.path.dirname(os.path.abspath(__file__))
ROOT = os.path.dirname(HERE)
sys.path.insert(0, HERE)
from mutants import MUTANTS      # noqa: E402  pylint: disable=wrong-import-position

PY = "/venv/bin/python"


def sh(cmd, cwd=None, env=None, timeout=3600):
    proc = subprocess.run(cmd, cwd=cwd, env=env, capture_output=True, text=True,
                          timeout=timeout, check=False)
    return proc.returncode, proc.stdout + proc.stderr


def make_copy(mut):
    tmp = tempfile.mkdtemp(prefix="plotink-mut.", dir="/var/tmp")
    for name in ("plotink", "test", "setup.py", "README.md"):
        src = os.path.join("/repo", name)
        if os.path.isdir(src):
            shutil.copytree(src, os.path.join(tmp, name))
        elif os.path.exists(src):
            shutil.copy(src, tmp)
    for path, old, new, *rest in mut["edits"]:
        count = rest[0] if rest else 1
        full = os.path.join(tmp, path)
        with open(full, encoding="utf-8") as handle:
            text = handle.read()
        if text.count(old) != count:
            shutil.rmtree(tmp)
            raise SystemExit(f"mutant {mut['id']}: expected {count} occurrence(s) of the anchor "
                             f"in {path}, found {text.count(old)}")
        with open(full, "w", encoding="utf-8") as handle:
            handle.write(text.replace(old, new))
    return tmp


def run_one(mut, tier, seeds):
    out = {"id": mut["id"], "property": mut["property"], "note": mut.get("note", "")}
    try:
        tmp = make_copy(mut)
    except SystemExit as exc:               # stale anchor: report it, do not abort the batch
        out.update(tests_pass=False, detected=False, anchor_error=str(exc))
        print(f"ANCHOR-ERROR {mut['id']}: {exc}", flush=True)
        return out
    try:
        code, text = sh([PY, "-m", "pytest", "-q", "-p", "no:cacheprovider", "-x", "test"], cwd=tmp)
        out["tests_pass"] = code == 0
        if code != 0:
            out["tests_tail"] = text.strip().splitlines()[-3:]
        env = dict(os.environ, PLOTINK_REPO=tmp, VERIF_REPLAY_DIR=os.path.join(tmp, "replays"))
        detected = []
        replay_path = None
        for seed in seeds:
            code, text = sh([os.path.join(ROOT, "check"), mut["property"], "--tier", tier,
                             "--seed", str(seed)], env=env)
            hit = code == 1 and "VIOLATION property=" + mut["property"] in text
            detected.append(hit)
            if code not in (0, 1):
                out.setdefault("harness_errors", []).append(text.strip().splitlines()[-2:])
            match = re.search(r"replay=(\S+)", text)
            if hit and match:
                replay_path = match.group(1)
                out["first_violation"] = [ln.strip() for ln in text.splitlines()
                                          if ln.strip().startswith(("key:", "what:"))][:2]
        out["detected"] = all(detected)
        out["detected_each"] = detected
        if replay_path:
            code_m, _ = sh([os.path.join(ROOT, "check"), mut["property"], "--replay", replay_path],
                           env=env)
            code_r, _ = sh([os.path.join(ROOT, "check"), mut["property"], "--replay", replay_path])
            out["replay_fails_on_mutant"] = code_m == 1
            out["replay_passes_on_repo"] = code_r == 0
            os.remove(replay_path)
    finally:
        shutil.rmtree(tmp, ignore_errors=True)
    return out


def main():
    parser = argparse.ArgumentParser()
    parser.add_argument("--only")
    parser.add_argument("--id")
    parser.add_argument("--tier", default="quick")
    parser.add_argument("--seeds", default="0,5")
    parser.add_argument("--write", action="store_true")
    parser.add_argument("--parallel", type=int, default=1)
    args = parser.parse_args()
    seeds = [int(s) for s in args.seeds.split(",")]
    chosen = [m for m in MUTANTS
              if (not args.only or m["property"] in args.only.split(",")) and
              (not args.id or m["id"] == args.id)]
    results = []
    from concurrent.futures import ThreadPoolExecutor
    with ThreadPoolExecutor(max_workers=args.parallel) as pool:
        done = list(pool.map(lambda m: run_one(m, args.tier, seeds), chosen))
    for res in done:
        results.append(res)
        flag = "DETECTED" if res["detected"] else "MISSED  "
        extra = "" if res["tests_pass"] else "  (repo tests FAIL with this mutant - disqualified)"
        rep = ""
        if res["detected"]:
            rep = f" replay: mutant={'fail' if res.get('replay_fails_on_mutant') else 'PASS?'}" \
                  f" repo={'pass' if res.get('replay_passes_on_repo') else 'FAIL?'}"
        print(f"{flag} {res['property']} {res['id']}{extra}{rep}")
        if res.get("harness_errors"):
            print("   harness:", res["harness_errors"][0])
        if res.get("first_violation"):
            print("   ", res["first_violation"][-1][:200])
        sys.stdout.flush()
    if args.write:
        path = os.path.join(HERE, "results.json")
        old = {}
        if os.path.exists(path):
            with open(path, encoding="utf-8") as handle:
                old = {r["id"]: r for r in json.load(handle)}
        for res in results:
            old[res["id"]] = res
        with open(path, "w", encoding="utf-8") as handle:
            json.dump(sorted(old.values(), key=lambda r: (r["property"], r["id"])), handle, indent=1)
    missed = [r["id"] for r in results if r["tests_pass"] and not r["detected"]]
    print(f"{len(results)} mutants, {len(missed)} missed: {missed}")
    return 1 if missed else 0


if __name__ == "__main__":
    sys.exit(main())
