"""Property-breaking edits used by the detection self-test.  Each edit is
(path, old text, new text[, expected occurrence count]) applied to a scratch copy of /repo.
Every mutant must leave the repository's own 33 tests passing (the runner checks)."""

CALC = "plotink/ebb_calc.py"
SER = "plotink/ebb_serial.py"
SER3 = "plotink/ebb3_serial.py"
MOT = "plotink/ebb_motion.py"
MOT3 = "plotink/ebb3_motion.py"
PU = "plotink/plot_utils.py"
RT = "plotink/rtree.py"
SG = "plotink/spatial_grid.py"
TU = "plotink/text_utils.py"

MUTANTS = []


def mut(mid, prop, edits, note=""):
    MUTANTS.append({"id": mid, "property": prop, "edits": edits, "note": note})


# ------------------------------------------------------------------------------- C01
mut("C01-drop-dps", "C01", [(CALC, """        return 0, 0

    mpmath.mp.dps = 30 # Set decimal precision of 30.

    half_accel = int(accel / 2) # Rounds towards zero

    if accum == "clear": # Clear accumulator!
        accum = 0       # Clear to zero
        temp_rate = rate - int(accel / 2) + accel""", """        return 0, 0

    half_accel = int(accel / 2) # Rounds towards zero

    if accum == "clear": # Clear accumulator!
        accum = 0       # Clear to zero
        temp_rate = rate - int(accel / 2) + accel""")],
    "ambient precision leaks in; tests pass because another test leaves dps=30 behind")
mut("C01-clear-le", "C01", [(CALC, """            if accel < 0:           # Then, check rate at second step.
                accum = 2147483647  # Clear to 2^31 - 1
    else:
        accum = int(accum)

    # Account for difference in effective rate due to rounding of accel/2:
    rate_effective = rate + mpmath.mpf(accel) / 2 - half_accel""", """            if accel <= 0:           # Then, check rate at second step.
                accum = 2147483647  # Clear to 2^31 - 1
    else:
        accum = int(accum)

    # Account for difference in effective rate due to rounding of accel/2:
    rate_effective = rate + mpmath.mpf(accel) / 2 - half_accel""")])
mut("C01-dps15", "C01", [(CALC, """    mpmath.mp.dps = 30 # Set decimal precision of 30.

    half_accel = int(accel / 2) # Rounds towards zero

    if accum == "clear": # Clear accumulator!
        accum = 0       # Clear to zero
        temp_rate = rate - int(accel / 2) + accel""", """    mpmath.mp.dps = 15 # Set decimal precision of 15.

    half_accel = int(accel / 2) # Rounds towards zero

    if accum == "clear": # Clear accumulator!
        accum = 0       # Clear to zero
        temp_rate = rate - int(accel / 2) + accel""")])
mut("C01-alias-clear", "C01", [(MOT, "ebb_calc.move_dist_lt(rate_in, accel_in, time_ticks, 0)",
                                "ebb_calc.move_dist_lt(rate_in, accel_in, time_ticks, \"clear\")")],
    "deprecated moveDistLM no longer starts from accumulator 0")
mut("C01-floor-div", "C01", [(CALC, """    half_accel = int(accel / 2) # Rounds towards zero

    if accum == "clear": # Clear accumulator!
        accum = 0       # Clear to zero
        temp_rate = rate - int(accel / 2) + accel""", """    half_accel = accel // 2 # Rounds towards zero

    if accum == "clear": # Clear accumulator!
        accum = 0       # Clear to zero
        temp_rate = rate - int(accel / 2) + accel""")],
    "floor instead of truncation for odd negative accelerations")

# ------------------------------------------------------------------------------- C02
mut("C02-no-third-level", "C02", [(CALC, """                if jerk < 0:                # If the rate at the 3rd step is < 0...
                    accum = 2147483647      # Clear to 2^31 - 1""", """                if jerk < 0:                # If the rate at the 3rd step is < 0...
                    accum = 0""")])
mut("C02-int-not-round", "C02", [(CALC, "    accum_final = round(accum_final) # Find nearest integer value",
                                  "    accum_final = int(accum_final) # Find nearest integer value")])
mut("C02-rate-jerk-trunc", "C02", [(CALC, "(int(accel) - jerk/2) * time + jerk * time * time / 2)",
                                    "(int(accel) - int(jerk/2)) * time + jerk * time * time / 2)")])
mut("C02-drop-dps", "C02", [(CALC, """    mpmath.mp.dps = 30 # Set decimal precision of 30.

    half_accel = int(accel / 2) # Rounds towards zero
    jerk_over_six = int(jerk / 6) # Rounds towards zero""", """    half_accel = int(accel / 2) # Rounds towards zero
    jerk_over_six = int(jerk / 6) # Rounds towards zero""")])
mut("C02-second-level-sign", "C02", [(CALC, """            if temp_rate < 0:               # If the new rate < 0...
                accum = 2147483647          # Clear to 2^31 - 1""", """            if temp_rate <= 0:               # If the new rate < 0...
                accum = 2147483647          # Clear to 2^31 - 1""")])

# ------------------------------------------------------------------------------- C03
mut("C03-revert-trev", "C03", [(CALC, "    if (t_rev < 1) or (s_rev >= steps):", "    if (t_rev <= 1) or (s_rev >= steps):")],
    "revert of part of the calculate_lm fix")
mut("C03-revert-boundary", "C03", [(CALC, """            if accel > 0:
                c_factor -= 1
            else:
                c_factor += 1""", """            pass""")], "revert of the one-count boundary fix")
mut("C03-root-lt", "C03", [(CALC, "            if (t_rev > 0) and (neg_root <= t_rev):",
                            "            if (t_rev > 0) and (neg_root < t_rev):")])
mut("C03-srev-gt", "C03", [(CALC, "(s_rev >= steps):", "(s_rev > steps):")])
mut("C03-ceil-floor", "C03", [(CALC, "            pos_root = mpmath.ceil(pos_root)",
                               "            pos_root = mpmath.floor(pos_root) + 1")],
    "exact integer roots take one tick too many")

# ------------------------------------------------------------------------------- C17
mut("C17-no-interior", "C17", [(CALC, "    if 1.5 < t_mid < (time - 1.5):", "    if False and 1.5 < t_mid < (time - 1.5):")])
mut("C17-vertex-sign", "C17", [(CALC, "    t_mid = (jerk/2 - accel) / jerk", "    t_mid = (jerk/2 + accel) / jerk")])
mut("C17-end-early", "C17", [(CALC, "    v_end = abs(rate_t3(time, rate, accel, jerk))",
                              "    v_end = abs(rate_t3(time - 1, rate, accel, jerk))")])
mut("C17-window", "C17", [(CALC, "    if 1.5 < t_mid < (time - 1.5):", "    if 1.5 < t_mid < (time / 2):")],
    "interior extremum ignored in the second half of the move")

# ------------------------------------------------------------------------------- C07
mut("C07-revert-decode", "C07", [(SER, """                response = port_name.readline().decode('ascii')
                n_retry_count += 1
            if cmd.split(",")[0]""", """                response = port_name.readline()
                n_retry_count += 1
            if cmd.split(",")[0]""")], "revert of the fix")
mut("C07-qb-no-ok", "C07", [(SER, '["a", "i", "mr", "pi", "qm", "qg", "v"]', '["a", "i", "mr", "pi", "qm", "qg", "v", "qb"]')],
    "QB treated as a no-OK query: its OK is read by the next request")
mut("C07-ok-once", "C07", [(SER, "                while len(unused_response) == 0 and n_retry_count < 100:",
                            "                while len(unused_response) == 0 and n_retry_count < 0:")],
    "trailing OK line read only once: a late OK stays queued")
mut("C07-narrow-except", "C07", [(SER, """        except (serial.SerialException, IOError, RuntimeError, OSError) as err:
            if verbose:
                logger.error("Error reading serial data")""", """        except serial.SerialException as err:
            if verbose:
                logger.error("Error reading serial data")""")])
mut("C07-write-in-loop", "C07", [(SER, """                response = port_name.readline().decode('ascii')
                n_retry_count += 1
            if response.strip().startswith("OK"):""", """                port_name.write(cmd.encode('ascii'))
                response = port_name.readline().decode('ascii')
                n_retry_count += 1
            if response.strip().startswith("OK"):""")], "command re-sent on every empty read")
mut("C07-retry-99", "C07", [(SER, """            while len(response) == 0 and n_retry_count < 100:
                # get new response to replace null response if necessary
                response = port_name.readline().decode('ascii')
                n_retry_count += 1
            if cmd.split""", """            while len(response) == 0 and n_retry_count < 99:
                # get new response to replace null response if necessary
                response = port_name.readline().decode('ascii')
                n_retry_count += 1
            if cmd.split""")], "query gives up one read early")

# ------------------------------------------------------------------------------- C04
mut("C04-reboot-unguarded", "C04", [(SER3, """        if (self.port is None) or (self.err is not None):
            return False
        try:
            self.port.write('RB\\r'.encode('ascii'))""", """        if self.port is None:
            return False
        try:
            self.port.write('RB\\r'.encode('ascii'))""")])
mut("C04-record-overwrite", "C04", [(SER3, """        if self.err is None:
            self.err = message""", """        self.err = message""")])
mut("C04-command-no-err-guard", "C04", [(SER3, "        if (self.port is None) or (self.err is not None) or (cmd is None):",
                                         "        if (self.port is None) or (cmd is None):")])
mut("C04-connect-clears", "C04", [(SER3, """        if self.port is not None:
            return True # Already connected and verified.
""", """        if self.port is not None:
            return True # Already connected and verified.
        self.err = None
""")])
mut("C04-statusbyte-unguarded", "C04", [(SER3, """        if (self.port is None) or (self.err is not None):
            return None

        response = ''
        try:
            self.port.write('QG\\r'.encode('ascii'))""", """        if self.port is None:
            return None

        response = ''
        try:
            self.port.write('QG\\r'.encode('ascii'))""")])
mut("C04-penlower-unguarded", "C04", [(MOT3, """        if (self.port is None) or (self.err is not None):
            return
        if pin:
            str_output = f'SP,0,{pen_delay},{pin}'""", """        if self.port is None:
            return
        if pin:
            str_output = f'SP,0,{pen_delay},{pin}'""")],
    "guard delegated to command(): still blocked, so this one is EQUIVALENT under C04 "
    "(command() re-checks err) - expected to be missed")
