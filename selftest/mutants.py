"""Property-breaking edits used by the detection self-test.  Each edit is
(path, old text, new text[, expected occurrence count]) applied to a scratch copy of /repo.
Every mutant must leave the repository's own 33 tests passing (the runner checks)."""

CALC = "plotink/ebb_calc.py"
SER = "plotink/ebb_serial.py"
SER3 = "plotink/ebb3_serial.py"
MOT = "plotink/ebb_motion.py"
MOT3 = "plotink/ebb3_motion.py"
PU = "plotink/plot_utils.py"
RT = "plotink/rtree.py"
SG = "plotink/spatial_grid.py"
TU = "plotink/text_utils.py"

MUTANTS = []


def mut(mid, prop, edits, note=""):
    MUTANTS.append({"id": mid, "property": prop, "edits": edits, "note": note})


# ------------------------------------------------------------------------------- C01
mut("C01-drop-dps", "C01", [(CALC, """        return 0, 0

    mpmath.mp.dps = 30 # Set decimal precision of 30.

    half_accel = int(accel / 2) # Rounds towards zero

    if accum == "clear": # Clear accumulator!
        accum = 0       # Clear to zero
        temp_rate = rate - int(accel / 2) + accel""", """        return 0, 0

    half_accel = int(accel / 2) # Rounds towards zero

    if accum == "clear": # Clear accumulator!
        accum = 0       # Clear to zero
        temp_rate = rate - int(accel / 2) + accel""")],
    "ambient precision leaks in; tests pass because another test leaves dps=30 behind")
mut("C01-clear-le", "C01", [(CALC, """            if accel < 0:           # Then, check rate at second step.
                accum = 2147483647  # Clear to 2^31 - 1
    else:
        accum = int(accum)

    # Account for difference in effective rate due to rounding of accel/2:
    rate_effective = rate + mpmath.mpf(accel) / 2 - half_accel""", """            if accel <= 0:           # Then, check rate at second step.
                accum = 2147483647  # Clear to 2^31 - 1
    else:
        accum = int(accum)

    # Account for difference in effective rate due to rounding of accel/2:
    rate_effective = rate + mpmath.mpf(accel) / 2 - half_accel""")])
mut("C01-dps15", "C01", [(CALC, """    mpmath.mp.dps = 30 # Set decimal precision of 30.

    half_accel = int(accel / 2) # Rounds towards zero

    if accum == "clear": # Clear accumulator!
        accum = 0       # Clear to zero
        temp_rate = rate - int(accel / 2) + accel""", """    mpmath.mp.dps = 15 # Set decimal precision of 15.

    half_accel = int(accel / 2) # Rounds towards zero

    if accum == "clear": # Clear accumulator!
        accum = 0       # Clear to zero
        temp_rate = rate - int(accel / 2) + accel""")])
mut("C01-alias-clear", "C01", [(MOT, "ebb_calc.move_dist_lt(rate_in, accel_in, time_ticks, 0)",
                                "ebb_calc.move_dist_lt(rate_in, accel_in, time_ticks, \"clear\")")],
    "deprecated moveDistLM no longer starts from accumulator 0")
mut("C01-floor-div", "C01", [(CALC, """    half_accel = int(accel / 2) # Rounds towards zero

    if accum == "clear": # Clear accumulator!
        accum = 0       # Clear to zero
        temp_rate = rate - int(accel / 2) + accel""", """    half_accel = accel // 2 # Rounds towards zero

    if accum == "clear": # Clear accumulator!
        accum = 0       # Clear to zero
        temp_rate = rate - int(accel / 2) + accel""")],
    "floor instead of truncation for odd negative accelerations")

# ------------------------------------------------------------------------------- C02
mut("C02-no-third-level", "C02", [(CALC, """                if jerk < 0:                # If the rate at the 3rd step is < 0...
                    accum = 2147483647      # Clear to 2^31 - 1""", """                if jerk < 0:                # If the rate at the 3rd step is < 0...
                    accum = 0""")])
mut("C02-int-not-round", "C02", [(CALC, "    accum_final = round(accum_final) # Find nearest integer value",
                                  "    accum_final = int(accum_final) # Find nearest integer value")])
mut("C02-rate-jerk-trunc", "C02", [(CALC, "(int(accel) - jerk/2) * time + jerk * time * time / 2)",
                                    "(int(accel) - int(jerk/2)) * time + jerk * time * time / 2)")])
mut("C02-drop-dps", "C02", [(CALC, """    mpmath.mp.dps = 30 # Set decimal precision of 30.

    half_accel = int(accel / 2) # Rounds towards zero
    jerk_over_six = int(jerk / 6) # Rounds towards zero""", """    half_accel = int(accel / 2) # Rounds towards zero
    jerk_over_six = int(jerk / 6) # Rounds towards zero""")])
mut("C02-second-level-sign", "C02", [(CALC, """            if temp_rate < 0:               # If the new rate < 0...
                accum = 2147483647          # Clear to 2^31 - 1""", """            if temp_rate <= 0:               # If the new rate < 0...
                accum = 2147483647          # Clear to 2^31 - 1""")])

# ------------------------------------------------------------------------------- C03
mut("C03-revert-trev", "C03", [(CALC, "    if (t_rev < 1) or (s_rev >= steps):", "    if (t_rev <= 1) or (s_rev >= steps):")],
    "revert of part of the calculate_lm fix")
mut("C03-revert-boundary", "C03", [(CALC, """            if accel > 0:
                c_factor -= 1
            else:
                c_factor += 1""", """            pass""")], "revert of the one-count boundary fix")
mut("C03-root-lt", "C03", [(CALC, "            if (t_rev > 0) and (neg_root <= t_rev):",
                            "            if (t_rev > 0) and (neg_root < t_rev):")])
mut("C03-srev-gt", "C03", [(CALC, "(s_rev >= steps):", "(s_rev > steps):")])
mut("C03-ceil-floor", "C03", [(CALC, "            pos_root = mpmath.ceil(pos_root)",
                               "            pos_root = mpmath.floor(pos_root) + 1")],
    "exact integer roots take one tick too many")

# ------------------------------------------------------------------------------- C17
mut("C17-no-interior", "C17", [(CALC, "    if 1.5 < t_mid < (time - 1.5):", "    if False and 1.5 < t_mid < (time - 1.5):")])
mut("C17-vertex-sign", "C17", [(CALC, "    t_mid = (jerk/2 - accel) / jerk", "    t_mid = (jerk/2 + accel) / jerk")])
mut("C17-end-early", "C17", [(CALC, "    v_end = abs(rate_t3(time, rate, accel, jerk))",
                              "    v_end = abs(rate_t3(time - 1, rate, accel, jerk))")])
mut("C17-window", "C17", [(CALC, "    if 1.5 < t_mid < (time - 1.5):", "    if 1.5 < t_mid < (time / 2):")],
    "interior extremum ignored in the second half of the move")

# ------------------------------------------------------------------------------- C07
mut("C07-revert-decode", "C07", [(SER, """                response = port_name.readline().decode('ascii')
                n_retry_count += 1
            if cmd.split(",")[0]""", """                response = port_name.readline()
                n_retry_count += 1
            if cmd.split(",")[0]""")], "revert of the fix")
mut("C07-qb-no-ok", "C07", [(SER, '["a", "i", "mr", "pi", "qm", "qg", "v"]', '["a", "i", "mr", "pi", "qm", "qg", "v", "qb"]')],
    "QB treated as a no-OK query: its OK is read by the next request")
mut("C07-ok-once", "C07", [(SER, "                while len(unused_response) == 0 and n_retry_count < 100:",
                            "                while len(unused_response) == 0 and n_retry_count < 0:")],
    "trailing OK line read only once: a late OK stays queued")
mut("C07-narrow-except", "C07", [(SER, """        except (serial.SerialException, IOError, RuntimeError, OSError) as err:
            if verbose:
                logger.error("Error reading serial data")""", """        except serial.SerialException as err:
            if verbose:
                logger.error("Error reading serial data")""")])
mut("C07-write-in-loop", "C07", [(SER, """                response = port_name.readline().decode('ascii')
                n_retry_count += 1
            if response.strip().startswith("OK"):""", """                port_name.write(cmd.encode('ascii'))
                response = port_name.readline().decode('ascii')
                n_retry_count += 1
            if response.strip().startswith("OK"):""")], "command re-sent on every empty read")
mut("C07-retry-99", "C07", [(SER, """            while len(response) == 0 and n_retry_count < 100:
                # get new response to replace null response if necessary
                response = port_name.readline().decode('ascii')
                n_retry_count += 1
            if cmd.split""", """            while len(response) == 0 and n_retry_count < 99:
                # get new response to replace null response if necessary
                response = port_name.readline().decode('ascii')
                n_retry_count += 1
            if cmd.split""")], "query gives up one read early")

# ------------------------------------------------------------------------------- C04
mut("C04-reboot-unguarded", "C04", [(SER3, """        if (self.port is None) or (self.err is not None):
            return False
        try:
            self.port.write('RB\\r'.encode('ascii'))""", """        if self.port is None:
            return False
        try:
            self.port.write('RB\\r'.encode('ascii'))""")])
mut("C04-record-overwrite", "C04", [(SER3, """        if self.err is None:
            self.err = message""", """        self.err = message""")])
mut("C04-command-no-err-guard", "C04", [(SER3, "        if (self.port is None) or (self.err is not None) or (cmd is None):",
                                         "        if (self.port is None) or (cmd is None):")])
mut("C04-connect-clears", "C04", [(SER3, """        if self.port is not None:
            return True # Already connected and verified.
""", """        if self.port is not None:
            return True # Already connected and verified.
        self.err = None
""")])
mut("C04-statusbyte-unguarded", "C04", [(SER3, """        if (self.port is None) or (self.err is not None):
            return None

        response = ''
        try:
            self.port.write('QG\\r'.encode('ascii'))""", """        if self.port is None:
            return None

        response = ''
        try:
            self.port.write('QG\\r'.encode('ascii'))""")])
mut("C04-penlower-unguarded", "C04", [(MOT3, """        if (self.port is None) or (self.err is not None):
            return
        if pin is not None:
            str_output = f'SP,0,{pen_delay},{pin}'""", """        if self.port is None:
            return
        if pin is not None:
            str_output = f'SP,0,{pen_delay},{pin}'""")],
    "guard delegated to command(): still blocked, so this one is EQUIVALENT under C04 "
    "(command() re-checks err) - expected to be missed")

# ------------------------------------------------------------------------------- C05
mut("C05-retry-24", "C05", [(SER3, """            while len(response) == 0 and n_retry_count < 25:
                # get new response to replace null response if necessary
                response = self.port.readline().decode('ascii').strip()
                n_retry_count += 1

            if not response.startswith(cmd_name):""", """            while len(response) == 0 and n_retry_count < 24:
                # get new response to replace null response if necessary
                response = self.port.readline().decode('ascii').strip()
                n_retry_count += 1

            if not response.startswith(cmd_name):""")], "command() gives up one read early")
mut("C05-name-in", "C05", [(SER3, "        if ('Err:' in response) or (not response.startswith(qry_name)):",
                            "        if ('Err:' in response) or (qry_name not in response):")],
    "query accepts a reply that merely contains the name")
mut("C05-no-single-letter-args", "C05", [(SER3, """        elif cmd[1] == ',':
            cmd_name = cmd[0]       # Case of single-letter command with arguments.
        else:""", """        else:""")], "one-letter command with arguments: name taken as two characters")
mut("C05-narrow-except", "C05", [(SER3, """        except (serial.SerialException, IOError, RuntimeError, OSError):
            if qry_name.lower() not in ["rb", "r", "bl"]: # Ignore err on these commands""",
                                  """        except serial.SerialException:
            if qry_name.lower() not in ["rb", "r", "bl"]: # Ignore err on these commands""")])
mut("C05-write-in-retry", "C05", [(SER3, """            while len(response) == 0 and n_retry_count < 25:
                # get new response to replace null response if necessary
                response = self.port.readline().decode('ascii').strip()
                n_retry_count += 1

        except (serial.SerialException, IOError, RuntimeError, OSError):
            if qry_name""", """            while len(response) == 0 and n_retry_count < 25:
                # get new response to replace null response if necessary
                self.port.write((qry + '\\r').encode('ascii'))
                response = self.port.readline().decode('ascii').strip()
                n_retry_count += 1

        except (serial.SerialException, IOError, RuntimeError, OSError):
            if qry_name""")], "query re-sent on every empty read")
mut("C05-header-always", "C05", [(SER3, """            if response[header_len] == ',': # Check if character after query is a comma.
                header_len += 1             # If so, strip it out of response too.""",
                                  """            header_len += 1             # strip separator""")],
    "payload that follows the name without a comma loses its first character")
mut("C05-revert-voltage", "C05", [(MOT3, """        response = self.query('QC')
        if response is None:
            return None  # Error while querying; already recorded in self.err.
        split_string = response.split(",", 1)""", """        split_string = self.query('QC').split(",", 1)""")],
    "revert of fix 591a11e")
mut("C05-revert-nickname", "C05", [(SER3, """            if not self.command('ST,' + nickname):
                return False
            self.name = nickname""", """            self.command('ST,' + nickname)
            self.name = nickname""")], "revert of fix 6d5faa1")
mut("C05-revert-statusbyte", "C05", [(SER3, """                self.record_error(error_msg)
                return None

        except (serial.SerialException, IOError, RuntimeError, OSError):
            error_msg = 'USB communication error after status byte query'""", """                self.record_error(error_msg)

        except (serial.SerialException, IOError, RuntimeError, OSError):
            error_msg = 'USB communication error after status byte query'""")], "revert of fix b200688")
mut("C05-steps-deref", "C05", [(MOT3, """        result = self.query('QS') # Query global step position
        if self.err:
            return None
""", """        result = self.query('QS') # Query global step position
""")], "query_steps dereferences a failed query result")
mut("C05-cmd-strip-lost", "C05", [(SER3, "        cmd = cmd.strip() # Remove leading, trailing whitespace, if any.",
                                   "        cmd = cmd.lstrip() # Remove leading whitespace, if any.")],
    "trailing whitespace is transmitted before the carriage return")

# ------------------------------------------------------------------------------- C06
mut("C06-xy-order", "C06", [(MOT3, "        str_output = f'SM,{duration},{delta_y},{delta_x}'",
                             "        str_output = f'SM,{duration},{delta_x},{delta_y}'")])
mut("C06-chunk-751", "C06", [(MOT, """            if n_pause > 750:
                time_delay = 750""", """            if n_pause > 751:
                time_delay = 751""")])
mut("C06-clamp-4", "C06", [(MOT, "    res = min(res, 5)", "    res = min(res, 4)")])
mut("C06-revert-absmove", "C06", [(MOT, "        if (position1 is not None) and (position2 is not None):",
                                   "        if position1 and position2:")], "revert of fix 636af18")
mut("C06-revert-pin", "C06", [(MOT3, """        if pin is not None:
            str_output = f'SP,1,{pen_delay},{pin}'""", """        if pin:
            str_output = f'SP,1,{pen_delay},{pin}'""")], "partial revert of fix ffcd052 (pen_raise only)")
mut("C06-pd-direction", "C06", [(MOT3, "        self.command(f'PD,B,{pin},{direction}') # Configure I/O pin as output or input",
                                 "        self.command(f'PD,B,{pin},0') # Configure I/O pin as output or input")])
mut("C06-lm-or", "C06", [(MOT, """        if ((rate1 == 0 and accel1 == 0) or steps1 == 0) and\\
                ((rate2 == 0 and accel2 == 0) or steps2 == 0):""", """        if ((rate1 == 0 and accel1 == 0) or steps1 == 0) or\\
                ((rate2 == 0 and accel2 == 0) or steps2 == 0):""")],
    "low-level move suppressed when only one axis cannot move")
mut("C06-pause-max1", "C06", [(MOT3, "                time_delay = max(pause_time, 1) # don't allow zero-time moves",
                               "                time_delay = max(pause_time, 2) # don't allow zero-time moves")],
    "a remaining pause of 1 ms is sent as 2 ms")
mut("C06-sc-index", "C06", [(MOT, "        ebb_serial.command(port_name, 'SC,11,{0}\\r'.format(pen_up_rate), verbose)",
                             "        ebb_serial.command(port_name, 'SC,12,{0}\\r'.format(pen_up_rate), verbose)")],
    "pen-up rate written to the pen-down rate register")
mut("C06-sr-state0", "C06", [(MOT3, """        if state is None:
            str_output = f'SR,{timeout_ms}'""", """        if not state:
            str_output = f'SR,{timeout_ms}'""")], "servo_timeout drops state=0 (power off now)")

mut("C07-module-reply-memo", "C07", [
    (SER, "            if cmd.split(\",\")[0].strip().lower() not in [\"a\", \"i\", \"mr\", \"pi\", \"qm\", \"qg\", \"v\"]:\n                # Most queries return", "            if cmd.strip().lower() in (\"v\", \"qt\"):\n                response = _IDENTITY.setdefault(cmd.strip().lower(), response) or response\n            if cmd.split(\",\")[0].strip().lower() not in [\"a\", \"i\", \"mr\", \"pi\", \"qm\", \"qg\", \"v\"]:\n                # Most queries return"),
    (SER, "def query(port_name, cmd, verbose=True):", "_IDENTITY = {}\n\n\ndef query(port_name, cmd, verbose=True):")],
    "identity replies (version, nickname) remembered per request text at module level: right for one board")
# ------------------------------------------------------------------------------- C08
mut("C08-xmin-xmax", "C08", [(PU, """            x_new = x_max # Find intersection of our segment with x_max
            slope = (y_2 - y_1) / (x_2 - x_1)
            y_new = slope * (x_max - x_1) + y_1""", """            x_new = x_max # Find intersection of our segment with x_max
            slope = (y_2 - y_1) / (x_2 - x_1)
            y_new = slope * (x_min - x_1) + y_1""")])
mut("C08-slope", "C08", [(PU, """            y_new = y_min  # Find intersection of our segment with y_min
            slope = (x_2 - x_1) / (y_2 - y_1)""", """            y_new = y_min  # Find intersection of our segment with y_min
            slope = (y_2 - y_1) / (x_2 - x_1)""")])
mut("C08-trivial-reject", "C08", [(PU, "        if code_1 & code_2:\n            return False, segment",
                                   "        if code_1 == code_2:\n            return False, segment")])
mut("C08-failsafe", "C08", [(PU, "        if iterations > 3: # Failsafe", "        if iterations > 1: # Failsafe")])
mut("C08-endpoint", "C08", [(PU, "        if code == code_1:\n            x_1 = x_new", "        if code == code_2:\n            x_1 = x_new")])
mut("C08-clipcode-ge", "C08", [(PU, "    if x_in > x_max:\n        code |= 2 # Right", "    if x_in >= x_max:\n        code |= 2 # Right")],
    "points exactly on the right edge count as outside")

# ------------------------------------------------------------------------------- C09
mut("C09-slice", "C09", [(PU, "        vertices[start_index + 1:end_index - 1] = []", "        vertices[start_index + 1:end_index] = []")])
mut("C09-skip2", "C09", [(PU, "        vertices[start_index + 1:end_index - 1] = [] # delete (start_index, end_index), exclusive\n        start_index += 1",
                          "        vertices[start_index + 1:end_index - 1] = [] # delete (start_index, end_index), exclusive\n        start_index += 2")])
mut("C09-tol-gt", "C09", [(PU, "        if (temp * temp / seg_length_squared) >= tol_squared:", "        if (temp * temp / seg_length_squared) > tol_squared * 1.5:")])
mut("C09-past-end", "C09", [(PU, "            if ((p_x - seg_1x)*(p_x - seg_1x) + (p_y - seg_1y)*(p_y - seg_1y)) >= tol_squared:",
                             "            if ((p_x - seg_0x)*(p_x - seg_0x) + (p_y - seg_1y)*(p_y - seg_1y)) >= tol_squared:")],
    "vertex projecting beyond the segment end measured against the wrong corner")
mut("C09-before-start", "C09", [(PU, "        if temp1 <= 0:\n            if ( dx_p_s0 * dx_p_s0 + dy_p_s0 * dy_p_s0 ) >= tol_squared:\n                return False\n            continue",
                                 "        if temp1 <= 0:\n            continue")],
    "vertices projecting before the segment start are always in tolerance (sharp reversals)")

# ------------------------------------------------------------------------------- C10
mut("C10-handle", "C10", [(PU, "        s_p[i][0] = two[2]", "        s_p[i][0] = two[1]")])
mut("C10-node", "C10", [(PU, "        p_list = [one[2], one[3], two[1]]", "        p_list = [one[2], one[3], two[2]]")])
mut("C10-split-04", "C10", [(PU, "        one, two = bezmisc.beziersplitatt(b_list, 0.5)", "        one, two = bezmisc.beziersplitatt(b_list, 0.4)")],
    "same curve, still flat - breaks only the dyadic-interval clause")
mut("C10-flat-first-only", "C10", [(PU, "            b_list = (p_0, p_1, p_2, p_3)\n\n            if not points_in_tolerance(b_list, flat):",
                                    "            b_list = (p_0, p_1, p_2, p_3)\n\n            if not points_in_tolerance((p_0, p_1, p_3), flat):")])

# ------------------------------------------------------------------------------- C11
mut("C11-wrong-set", "C11", [(PU, '        if par_align in {"xminymin", "xmidymin", "xmaxymin"}:', '        if par_align in {"xminymin", "xmidymin", "xmaxymid"}:')])
mut("C11-no-half", "C11", [(PU, "            o_y = -min_y + excess_height / 2", "            o_y = -min_y + excess_height")])
mut("C11-ar-flip", "C11", [(PU, '    if (((ar_doc >= ar_vb) and (par_mos == "meet"))', '    if (((ar_doc <= ar_vb) and (par_mos == "meet"))')])
mut("C11-defer-index", "C11", [(PU, "                    par_align = par_array[1]\n", "                    par_align = par_array[0]\n")])
mut("C11-no-lower", "C11", [(PU, "        par_array = p_a_r.strip().replace(',', ' ').lower().split()", "        par_array = p_a_r.strip().replace(',', ' ').split()")])
mut("C11-revert-valueerror", "C11", [(PU, """    try:
        min_x = float(vb_array[0]) # viewbox offset: x
        min_y = float(vb_array[1]) # viewbox offset: y
        width = float(vb_array[2]) # viewbox width
        height = float(vb_array[3]) # viewbox height
    except ValueError:
        return 1, 1, 0, 0 # invalid viewbox; return default transform
""", """    min_x = float(vb_array[0]) # viewbox offset: x
    min_y = float(vb_array[1]) # viewbox offset: y
    width = float(vb_array[2]) # viewbox width
    height = float(vb_array[3]) # viewbox height
""")], "revert of the vb_scale fix")
mut("C11-xmax-slack", "C11", [(PU, "        o_x = -min_x + excess_width # Case: X-Max", "        o_x = -min_x - excess_width # Case: X-Max")])

# ------------------------------------------------------------------------------- C12
mut("C12-q-const", "C12", [(PU, "        return float(value) * PX_PER_INCH / 101.6", "        return float(value) * PX_PER_INCH / 100.0")])
mut("C12-pt-const", "C12", [(PU, "        return float(distance_uu) / (PX_PER_INCH / 72.0)", "        return float(distance_uu) / (PX_PER_INCH / 72.27)")])
mut("C12-pc-inches", "C12", [(PU, "        if unit == 'pc':\n            return float(value) / 6.0", "        if unit == 'pc':\n            return float(value) / 12.0")])
mut("C12-getlength-cm", "C12", [(PU, """        if unit == 'cm':
            return float(value) * PX_PER_INCH / 2.54
        if unit in ('Q', 'q'):
            return float(value) * PX_PER_INCH / (40.0 * 2.54)""", """        if unit == 'cm':
            return float(value) * PX_PER_INCH / 2.45
        if unit in ('Q', 'q'):
            return float(value) * PX_PER_INCH / (40.0 * 2.54)""")])
mut("C12-inches-px90", "C12", [(PU, "            return float(value) / 96.0", "            return float(value) / 90.0")])
mut("C12-em-as-mm", "C12", [(PU, "    elif string[-2:] == 'mm':  # millimeters", "    elif string[-2:] in ('mm', 'em'):  # millimeters")],
    "unsupported unit em silently read as millimetres")

# ------------------------------------------------------------------------------- C13
mut("C13-adjacency", "C13", [(SG, "                    if y_row < max_bin:\n                        self.adjacents[index_i].append(index_i + self.bins_per_side - 1)",
                              "                    if y_row < max_bin:\n                        self.adjacents[index_i].append(index_i + self.bins_per_side)")])
mut("C13-remove-reverse", "C13", [(SG, "            cell_number = self.lookup[other_index]\n            self.grid[cell_number].remove(other_index)",
                                   "            cell_number = self.lookup[other_index]")], "removal forgets the reversed end")
mut("C13-lookup-index", "C13", [(SG, "                self.lookup[self.path_count + index_i] = grid_index", "                self.lookup[index_i] = grid_index")])
mut("C13-no-clamp", "C13", [(SG, "        x_bin = max(min(math.floor((vertex_in[0] - self.xmin) / self.bin_size_x), max_bin), 0)",
                             "        x_bin = max(math.floor((vertex_in[0] - self.xmin) / self.bin_size_x), 0)")])
mut("C13-dist-gt", "C13", [(SG, """                dist = plot_utils.square_dist(vertex_in, vertex)
                if dist < best_dist:
                    best_dist = dist
                    best_index = path_index
        return best_index""", """                dist = plot_utils.square_dist(vertex_in, vertex)
                if dist > best_dist:
                    best_dist = dist
                    best_index = path_index
        return best_index""")], "global fallback keeps the farthest end")
mut("C13-fallthrough-reset", "C13", [(SG, "        if best_index:\n            return best_index\n", "        if best_index:\n            return best_index\n        best_dist = math.inf\n")],
    "index-0 fall-through combined with a reset of the best distance")
mut("C13-reverse-vertex", "C13", [(SG, """                if path_index >= self.path_count: # new path is reversed
                    vertex = self.vertices[path_index - self.path_count][1]
                else:
                    vertex = self.vertices[path_index][0] # Beginning of next path""", """                if path_index >= self.path_count: # new path is reversed
                    vertex = self.vertices[path_index - self.path_count][0]
                else:
                    vertex = self.vertices[path_index][0] # Beginning of next path""")],
    "reversed ends measured at the path start")

mut("C13-class-pathcount", "C13", [(SG, "        self.path_count = len(vertices)\n", "        Index.path_count = len(vertices)\n")],
    "path count written to the class: an index built later changes the answers of an earlier one "
    "(state shared between objects; needs two indexes in one process)")
# ------------------------------------------------------------------------------- C14
mut("C14-revert-strict", "C14", [(RT, "if x_1 <= center_x and y_1 <= center_y", "if x_1 < center_x and y_1 < center_y")],
    "partial revert of the rtree fix (first quadrant only)")
mut("C14-touch", "C14", [(RT, "            is_disjoint = x_1 > xmax or y_1 > ymax or x_2 < xmin or y_2 < ymin\n            if not is_disjoint:\n                ids.add(i)",
                          "            is_disjoint = x_1 >= xmax or y_1 > ymax or x_2 < xmin or y_2 < ymin\n            if not is_disjoint:\n                ids.add(i)")],
    "touching on the right edge no longer counts")
mut("C14-prune", "C14", [(RT, "is_disjoint = x_1 > subt.xmax or y_1 > subt.ymax or x_2 < subt.xmin or y_2 < subt.ymin",
                          "is_disjoint = x_1 > subt.xmax or y_1 > subt.ymax or x_2 <= subt.xmin or y_2 < subt.ymin")])
mut("C14-leaf-rule", "C14", [(RT, "        if max(map(len, sub_bboxes)) == len(bboxes):", "        if min(map(len, sub_bboxes)) >= len(bboxes):")],
    "leaf rule on the smallest quadrant: unbounded recursion")
mut("C14-center", "C14", [(RT, "            center_y += (ymin/2 + ymax/2) / len(bboxes)", "            center_y += (ymin/2 + ymax/2) / (len(bboxes) + 1)")],
    "centre not the mean (equivalent for correctness: any split point works) - expected MISSED")

mut("C14-class-bboxes", "C14", [(RT, "            self.bboxes = bboxes\n", "            self.bboxes += bboxes\n")],
    "leaf boxes appended to the class-level list: every index in the process shares it")
# ------------------------------------------------------------------------------- C15
mut("C15-string-compare", "C15", [(SER, "        if parse(ebb_version_string) >= parse(version_string):", "        if ebb_version_string >= version_string:")])
mut("C15-ebb3-string-compare", "C15", [(SER3, "        if self.version_parsed >= parsed_version_string:", "        if str(self.version_parsed) >= str(parsed_version_string):")])
mut("C15-no-second-probe", "C15", [(SER3, """                self.port.write('v\\r'.encode('ascii'))    # Request version string.
                str_version = self.port.readline().decode('ascii').strip()
                if str_version:
                    if "EBB" in str_version:
                        verified = True

        except""", """                pass

        except""")], "second identification attempt removed: a board that answers late is rejected")
mut("C15-gate-gt", "C15", [(MOT, '        if not ebb_serial.min_version(port_name, "2.6.0"):', '        if ebb_serial.min_version(port_name, "2.6.0") is False:')],
    "servo timeout sent when the version is unknown")
mut("C15-revert-disconnect", "C15", [(SER3, "            self.disconnect() # Close the port; this board cannot be used.\n", "")], "revert of part of fix 97e1ec3")
mut("C15-revert-none-version", "C15", [(SER3, """        else: # ebb_version_string is not a reasonable version number.
            self.version = None
            self.version_parsed = None
            return""", """        else: # ebb_version_string is not a reasonable version number.
            return""")], "revert of part of fix 97e1ec3 (stale version reused)")
mut("C15-min-version-301", "C15", [(SER3, '    MIN_VERSION_STRING = "3.0.2"', '    MIN_VERSION_STRING = "3.0.1"')])
mut("C15-cu-before-check", "C15", [(SER3, """        self.parse_version(str_version) # Parse firmware version
""", """        self.parse_version(str_version) # Parse firmware version
        self.port.write( "CU,10,1\\r".encode('ascii'))
        self.port.readline()
""")], "future-syntax command sent before the firmware version is checked")

# ------------------------------------------------------------------------------- C16
mut("C16-little-endian", "C16", [(SER3, "        bytes_sequence = value.to_bytes(4, byteorder='big', signed=True)", "        bytes_sequence = value.to_bytes(4, byteorder='little', signed=True)")])
mut("C16-unsigned-read", "C16", [(SER3, "        return int.from_bytes(bytes_sequence, byteorder='big', signed=True)", "        return int.from_bytes(bytes_sequence, byteorder='big', signed=False)")])
mut("C16-oldres-eq", "C16", [(MOT3, "            if old_res != resolution_2:", "            if old_res == resolution_2:")])
mut("C16-preset", "C16", [(MOT3, "                self.command(f'EM,{resolution_2},{resolution_2}')", "                self.command(f'EM,{resolution_2},0')")],
    "pre-set of the global resolution also disables motor 2 - final EM re-enables: EQUIVALENT? checked")
mut("C16-resmap", "C16", [(MOT3, "        res_map = {16: 1, 8: 2, 4: 3, 2: 4, 1: 5, 0:0}", "        res_map = {16: 1, 8: 4, 4: 3, 2: 2, 1: 5, 0:0}")])
mut("C16-no-increment", "C16", [(SER3, "            self.var_write(byte, start_index)\n            start_index += 1", "            self.var_write(byte, start_index)")])
mut("C16-oldres-motor2", "C16", [(MOT3, "            if motor_res[1] != 0:\n                old_res = motor_res[1]\n", "")],
    "prior state with only motor 2 enabled is read as 'no resolution set'")
mut("C16-class-ram-shadow", "C16", [
    (SER3, "        value = self.query(f'QL,{index}')\n", "        if index in EBB3._ram_shadow:\n            return EBB3._ram_shadow[index]\n        value = self.query(f'QL,{index}')\n"),
    (SER3, "    MIN_VERSION_STRING = \"3.0.2\"    # Minimum supported EBB firmware version.\n", "    MIN_VERSION_STRING = \"3.0.2\"    # Minimum supported EBB firmware version.\n    _ram_shadow = {}\n"),
    (SER3, "        self.command(f'SL,{value},{index}')\n", "        EBB3._ram_shadow[index] = value\n        self.command(f'SL,{value},{index}')\n")],
    "write-through RAM shadow kept on the class: correct for one board, answers for the wrong board with two")
mut("C16-class-name-cache", "C16", [
    (SER3, "        raw_string = self.query('QT')\n", "        raw_string = EBB3._nick_cache.get('QT') or self.query('QT')\n        EBB3._nick_cache['QT'] = raw_string\n"),
    (SER3, "            if not self.command('ST,' + nickname):", "            EBB3._nick_cache.clear()\n            if not self.command('ST,' + nickname):"),
    (SER3, "    MIN_VERSION_STRING = \"3.0.2\"    # Minimum supported EBB firmware version.\n", "    MIN_VERSION_STRING = \"3.0.2\"    # Minimum supported EBB firmware version.\n    _nick_cache = {}\n")],
    "QT reply cached on the class and dropped by any write_nickname: right for one board")
mut("C16-class-qe-cache", "C16", [
    (MOT3, "        response = self.query(\"QE\")\n        if response is None:\n            return None\n", "        if EBBMotionWrap._qe_cache is not None:\n            response = EBBMotionWrap._qe_cache\n        else:\n            response = self.query(\"QE\")\n        if response is None:\n            return None\n        EBBMotionWrap._qe_cache = response\n"),
    (MOT3, "        resolution_1 = max(int(resolution_1), 0)\n", "        EBBMotionWrap._qe_cache = None\n        resolution_1 = max(int(resolution_1), 0)\n"),
    (MOT3, "    #pylint: disable=too-many-public-methods\n", "    #pylint: disable=too-many-public-methods\n    _qe_cache = None\n")],
    "QE reply cached on the class, invalidated by any motors_enable: right for one board")

# ------------------------------------------------------------------------------- C18
mut("C18-ge", "C18", [(PU, "    if value > upper_bound:\n        return upper_bound, True\n", "    if value >= upper_bound:\n        return upper_bound, True\n")])
mut("C18-tol-sign", "C18", [(PU, "        if value < (lower_bound - tolerance):", "        if value < (lower_bound + tolerance):")])
mut("C18-band-value", "C18", [(PU, "        return upper_bound, False  # Truncate with no error", "        return value, False  # Truncate with no error")])
mut("C18-minmax", "C18", [(PU, "    return max(lower_bound, min(upper_bound, value))", "    return min(lower_bound, max(upper_bound, value))")])
mut("C18-pib-tol", "C18", [(PU, "    if y > y_max + tolerance:\n        return False", "    if y > y_max - tolerance:\n        return False")])

# ------------------------------------------------------------------------------- C19
mut("C19-pass-order", "C19", [(SER, """        if port[1].startswith("EiBotBoard"):
            ebb_port = port[0]  # Success; EBB found by name match.
            break  # stop searching-- we are done.
    if ebb_port is None:
        for port in com_ports_list:
            if port[2].startswith("USB VID:PID=04D8:FD92"):""", """        if port[2].startswith("USB VID:PID=04D8:FD92"):
            ebb_port = port[0]  # Success; EBB found by name match.
            break  # stop searching-- we are done.
    if ebb_port is None:
        for port in com_ports_list:
            if port[1].startswith("EiBotBoard"):""")])
mut("C19-no-break", "C19", [(SER3, """                ebb_port = port[0]  # Success; EBB found by name match.
                break               # stop searching-- we are done.""", """                ebb_port = port[0]  # Success; EBB found by name match.""")],
    "last description match wins")
mut("C19-no-lower", "C19", [(SER3, "        p_2 = port[2].lower()\n\n        if (needle in p_2)", "        p_2 = port[2]\n\n        if (needle in p_2)")])
mut("C19-slice10", "C19", [(SER, "            p_1 = p_1[11:]\n            if p_1.startswith(plower):", "            p_1 = p_1[10:]\n            if p_1.startswith(plower):")])
mut("C19-listing-and", "C19", [(SER3, """        if port[1].startswith("EiBotBoard"):
            port_has_ebb = True
        elif port[2].startswith("USB VID:PID=04D8:FD92"):
            port_has_ebb = True
        if port_has_ebb:
            ebb_ports_list.append(port)
    if ebb_ports_list:
        return ebb_ports_list
    return None


def list_named_ebbs():""", """        if port[1].startswith("EiBotBoard") and port[2].startswith("USB VID:PID=04D8:FD92"):
            port_has_ebb = True
        if port_has_ebb:
            ebb_ports_list.append(port)
    if ebb_ports_list:
        return ebb_ports_list
    return None


def list_named_ebbs():""")])
mut("C19-ser-len", "C19", [(SER, "                if len(temp_string) < 3:\n                    temp_string = None\n                if temp_string is not None:\n                    ebb_names_list.append(temp_string)\n                    name_found = True\n        if not name_found:\n            # Look for \"...SNR=XXXX\" pattern,",
                            "                if len(temp_string) < 3:\n                    temp_string = None\n                if temp_string is not None:\n                    ebb_names_list.append(temp_string)\n        if not name_found:\n            # Look for \"...SNR=XXXX\" pattern,")],
    "a Windows board with a SER= tag is listed twice (name and port)")

# ------------------------------------------------------------------------------- C20
mut("C20-amp-last", "C20", [(TU, """    new_text = input_text.replace('&','&amp;')
    new_text = new_text.replace('<','&lt;')""", """    new_text = input_text.replace('<','&lt;')
    new_text = new_text.replace('&','&amp;')""")])
mut("C20-no-apos", "C20", [(TU, """    new_text = new_text.replace("'",'&apos;')\n""", "")])
mut("C20-unrounded-60", "C20", [(TU, "    if duration_rounded < 60:", "    if duration < 60:")], "59.6 s printed as '60 Seconds'")
mut("C20-divmod-unrounded", "C20", [(TU, "    m_elapsed, s_elapsed = divmod(duration_rounded, 60)", "    m_elapsed, s_elapsed = divmod(duration, 60)")])
mut("C20-le-3600", "C20", [(TU, "    if duration_rounded < 3600:", "    if duration_rounded <= 3600:")])
mut("C20-ms-999", "C20", [(TU, "        duration = duration / 1000.0", "        duration = duration / 1000.0 if duration > 10 else duration / 1000")],
    "equivalent (same value) - expected MISSED")
