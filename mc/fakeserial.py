"""Fake pyserial port whose every answer is a choice point, plus two boring board models.

The port owns all environment nondeterminism of the serial layers:

  write   : ok | raise <exception from profile.write_exc>
  silent  : (per request) board answers | board answers nothing at all
  content : (per reply line) conforming | one of profile.content mutations
  latency : (per reply line) number of empty reads before the line is delivered
  read    : (per readline, within profile.read_window) ok | raise <profile.read_exc>
  close   : ok | raise SerialException                       (only if profile.close_exc)

Option 0 is always the conforming / prompt / fault-free answer.

The board also keeps the attribution ledger: every reply line remembers the request that
produced it, every delivery remembers the request that was current when it was read.
"""
import errno
import types

import serial  # pyserial, the library's own dependency
from serial.serialutil import PortNotOpenError

EXC = {
    "SerialException": lambda: serial.SerialException("injected serial fault"),
    "PortNotOpenError": PortNotOpenError,
    "SerialTimeoutException": lambda: serial.SerialTimeoutException("injected write timeout"),
    "OSError": lambda: OSError(5, "injected I/O error"),
    "IOError": lambda: IOError("injected I/O error"),
    "RuntimeError": lambda: RuntimeError("injected runtime error"),
    # what the operating system says when a read "would block" or was interrupted: OSError
    # instances told apart by the number they carry, not by their class
    "OSError_EAGAIN": lambda: OSError(errno.EAGAIN, "Resource temporarily unavailable"),
    "InterruptedError": lambda: InterruptedError(errno.EINTR, "Interrupted system call"),
    "BrokenPipeError": lambda: BrokenPipeError(errno.EPIPE, "Broken pipe"),
    # pyserial wraps the OS error and keeps its number: "device or resource busy"
    "SerialException_EBUSY": lambda: serial.SerialException(errno.EBUSY, "could not open port: busy"),
}


def _pyserial_faults():
    """The faults pyserial itself can raise from read() and write(), harvested from the installed
    pyserial's source (posix and win32 back ends): one exception kind per distinct class and
    message text, "{}" filled with the text of an I/O error.  Returns (read_kinds, write_kinds)."""
    import ast
    import inspect
    found = {"read": [], "write": []}
    for modname in ("serial.serialposix", "serial.serialwin32"):
        try:
            src = inspect.getsource(__import__(modname, fromlist=["x"]))
        except (ImportError, OSError, ValueError, AttributeError):
            try:
                import importlib.util
                spec = importlib.util.find_spec(modname)
                src = open(spec.origin).read()
            except Exception:        # pragma: no cover - back end not shipped
                continue
        for fn in ast.walk(ast.parse(src)):
            if not (isinstance(fn, ast.FunctionDef) and fn.name in found):
                continue
            for node in ast.walk(fn):
                if not (isinstance(node, ast.Raise) and isinstance(node.exc, ast.Call)):
                    continue
                cls = getattr(node.exc.func, "id", None)
                if cls not in ("SerialException", "SerialTimeoutException") or not node.exc.args:
                    continue
                arg = node.exc.args[0]
                if isinstance(arg, ast.Call) and isinstance(arg.func, ast.Attribute) \
                        and arg.func.attr == "format":
                    arg = arg.func.value
                if isinstance(arg, ast.Constant) and isinstance(arg.value, str):
                    text = arg.value.replace("{!r}", "{}").format(
                        *["[Errno 5] Input/output error"] * arg.value.count("{"))
                    if (cls, text) not in found[fn.name]:
                        found[fn.name].append((cls, text))
    kinds = {"read": [], "write": []}
    for where, items in found.items():
        for n, (cls, text) in enumerate(items):
            name = "pyserial_%s_%d" % (where, n)
            EXC[name] = (lambda c=cls, t=text: getattr(serial, c)(t))
            kinds[where].append(name)
    return tuple(kinds["read"]), tuple(kinds["write"])


PYSERIAL_READ_FAULTS, PYSERIAL_WRITE_FAULTS = _pyserial_faults()


class Profile:
    """Which choice points a FakePort offers, and their alternatives (beyond the default)."""

    def __init__(self, write_exc=(), read_exc=(), latency=(0,), content=(), silent=False,
                 read_window=3, close_exc=False, late=None, blank=(), prefix=(), flush_exc=False):
        self.write_exc = tuple(write_exc)
        self.read_exc = tuple(read_exc)
        self.latency = tuple(latency)        # first entry must be 0
        self.content = tuple(content)        # names of mutations, see mutate_line()
        self.silent = silent                 # offer "board says nothing"
        self.read_window = read_window       # read-fault points offered at the first N reads
        self.close_exc = close_exc           # of each request (and at the retry limit reads)
        self.late = late                     # set of per-request read indexes also offered
        self.prefix = tuple(prefix)          # stale lines that may sit in the buffer *before* the
        #                                      reply (a late version banner, a leftover OK)
        self.flush_exc = flush_exc           # reset_input_buffer() may raise SerialException
        self.blank = tuple(blank)            # what an "empty" read may look like besides b"":
        #                                      a bare line end (a blank line from the board)
        assert self.latency[0] == 0


QUIET = Profile()
STALE_LINES = {"banner": "EBBv13_and_above EB Firmware Version 3.0.2", "ok": "OK",
               "blankish": " ", "other": "ZZ,stale"}


def mutate_line(kind, line, req_name):
    """Non-conforming reply contents."""
    if kind == "err":
        return "!8 Err: Unknown command '" + req_name + "'"
    if kind == "nameerr":               # EBB3 style: name echoed, then an error text
        return req_name + ",1 Err: parameter outside limit"
    if kind == "wrong":                 # a well-formed reply to some other request
        return "ZZ,0" if not line.startswith("ZZ") else "YY,0"
    if kind == "sibling":               # the reply of a request whose name differs in the last
        #                                     letter only (a stale SP answering S2, QX for QG)
        if len(req_name) < 2:
            return chr(ord(req_name[0]) + 1 if req_name[:1] not in ("Z", "z") else 65) + ",0"
        return req_name[0] + ("X" if req_name[1] not in ("X", "x") else "Y") + ",0"
    if kind == "cut":                   # a reply cut short after its first character
        return req_name[0] if len(req_name) > 1 else "ZZ,0"
    if kind == "longerr":               # EBB3 style error whose text comes after a long echo
        return req_name + "," + ",".join(["1234567890"] * 8) + ",Err: 8 parameter outside limit"
    if kind == "spacepay":              # conforming: the payload begins with a blank
        return req_name + ", 7 8"
    if kind == "tabpay":                # conforming: the payload begins with a tab
        return req_name + ",\tB2"
    if kind == "banner":                # a late version banner answering some other request
        return "EBBv13_and_above EB Firmware Version 3.0.2"
    if kind == "bangpay":               # conforming: punctuation in the payload (a name like Plotter!)
        return req_name + ",Plotter!"
    if kind == "okpay":                 # conforming: the payload is the word OK
        return req_name + ",OK"
    if kind == "errpay":                # conforming: the letters Err without the colon
        return req_name + ",Err 5"
    if kind == "jsonish":               # another device's answer, with str.format's own characters
        return '{"status":"busy"}'
    if kind == "lonebrace":
        return "}{0} busy"
    if kind == "garbage":
        return "\x7f??"
    if kind == "bare":                  # conforming: name only, no payload
        return req_name
    if kind == "nocomma":               # conforming: payload follows the name directly
        return line.replace(",", "", 1)
    if kind == "echo":                  # conforming: the payload begins with the name's letters
        return req_name + "," + req_name + ",1"
    if kind == "commapay":              # conforming: the payload itself begins with a comma
        return req_name + ",,7"
    if kind == "shifted":               # mismatched: the name occurs, but not at the start
        return "0," + req_name + ",1"
    raise ValueError(kind)


class Line:
    __slots__ = ("text", "delay", "req", "mutated", "orig_delay", "blank")

    def __init__(self, text, delay, req, mutated):
        self.text = text
        self.delay = delay
        self.orig_delay = delay
        self.blank = None
        self.req = req
        self.mutated = mutated


class FakePort:
    """The pyserial surface that plotink uses, scripted by a Chooser."""

    _serial = [0]

    def __init__(self, board, chooser=None, profile=QUIET, tag="", os_name=None):
        # like a pyserial Serial object: .port / .name hold the OS device name.  Unique unless
        # the harness deliberately re-opens the same device (a re-plugged board).
        FakePort._serial[0] += 1
        self.port = self.name = os_name or f"/dev/ttyFAKE{FakePort._serial[0]}"
        self.board = board
        self.chooser = chooser
        self.profile = profile
        self.tag = tag                  # prefix of choice labels (operation index)
        self.write_attempts = []        # every bytes object handed to write(), even if it raised
        self.writes = []                # those that reached the board
        self.reads = 0
        self.reads_this_req = 0
        self.queue = []
        self.closed = False
        self.close_calls = 0
        self.req_id = 0                 # number of requests the board has seen
        self.ledger = []                # (producing request, consuming request, text)
        self.faults = []                # labels of every non-default environment answer
        self.flushed = []
        self.produced = []              # every reply line the board emitted (even if unread)
        self._inbuf = ""
        self.timeout = 1.0
        self.fail_next_close = False
        self.clock = None               # optional virtual clock: an empty read takes real time

    @property
    def is_open(self):                  # as on a pyserial Serial object
        return not self.closed

    # -- choice helper ----------------------------------------------------------------
    def _choose(self, label, arity, kind, values=None):
        if self.chooser is None or arity <= 1:
            return 0
        choice = self.chooser.choose(self.tag + label, arity)
        if choice:
            value = values[choice] if values is not None else choice
            self.faults.append((self.tag, kind, value))
        return choice

    # -- pyserial surface -------------------------------------------------------------
    def write(self, data):
        self.write_attempts.append(bytes(data))
        if self.closed:
            raise PortNotOpenError()
        n_att = len(self.write_attempts) - 1
        choice = self._choose(f"w{n_att}", 1 + len(self.profile.write_exc), "write_exc",
                              ("",) + self.profile.write_exc)
        if choice:
            raise EXC[self.profile.write_exc[choice - 1]]()
        self.writes.append(bytes(data))
        self._inbuf += data.decode("ascii")
        while "\r" in self._inbuf:
            request, self._inbuf = self._inbuf.split("\r", 1)
            self._serve(request)
        return len(data)

    def _serve(self, request):
        self.req_id += 1
        self.reads_this_req = 0
        rid = self.req_id
        lines = self.board.handle(request)
        name = request.split(",")[0].strip()
        if self.profile.silent and lines:
            if self._choose(f"q{rid}.silent", 2, "silent"):
                self.board.note_lost(rid)
                return
        if self.profile.prefix and lines:
            choice = self._choose(f"q{rid}.p", 1 + len(self.profile.prefix), "prefix",
                                  ("",) + self.profile.prefix)
            if choice:
                stale = Line(STALE_LINES[self.profile.prefix[choice - 1]], 0, rid, True)
                self.queue.append(stale)
                self.produced.append(stale)
        for k, text in enumerate(lines):
            mutated = False
            if self.profile.content:
                choice = self._choose(f"q{rid}.c{k}", 1 + len(self.profile.content), "content",
                                      ("",) + self.profile.content)
                if choice:
                    text = mutate_line(self.profile.content[choice - 1], text, name)
                    mutated = True
            delay = 0
            if len(self.profile.latency) > 1:
                delay = self.profile.latency[self._choose(f"q{rid}.l{k}", len(self.profile.latency),
                                                          "latency", self.profile.latency)]
            line = Line(text, delay, rid, mutated)
            self.queue.append(line)
            self.produced.append(line)

    def readline(self):
        if self.closed:
            raise PortNotOpenError()
        idx = self.reads_this_req
        self.reads += 1
        self.reads_this_req += 1
        if self.profile.read_exc and (idx < self.profile.read_window or
                                      (self.profile.late and idx in self.profile.late)):
            choice = self._choose(f"q{self.req_id}.r{idx}", 1 + len(self.profile.read_exc),
                                  "read_exc", ("",) + self.profile.read_exc)
            if choice:
                raise EXC[self.profile.read_exc[choice - 1]]()
        if not self.queue:
            if self.clock is not None:
                self.clock.advance(1.6 * self.timeout)
            return b""
        head = self.queue[0]
        if head.delay > 0:
            head.delay -= 1
            if self.clock is not None:      # a read that times out blocks for (more than) the timeout
                self.clock.advance(1.6 * self.timeout)
            if self.profile.blank:
                if head.blank is None:      # one choice per reply line: how its empty reads look
                    choice = self._choose(f"q{head.req}.blank", 1 + len(self.profile.blank),
                                          "blank", ("",) + self.profile.blank)
                    head.blank = self.profile.blank[choice - 1] if choice else ""
                return head.blank.encode("ascii")
            return b""
        self.queue.pop(0)
        self.ledger.append((head.req, self.req_id, head.text))
        return (head.text + "\r\n").encode("ascii")

    def reset_input_buffer(self):
        if self.closed:
            raise PortNotOpenError()
        if self.profile.flush_exc and self._choose(f"flush{len(self.flushed)}.{self.reads}", 2,
                                                   "flush_exc"):
            raise serial.SerialException("injected fault while flushing the input buffer")
        self.flushed.extend(self.queue)
        self.queue = []

    flushInput = reset_input_buffer

    def close(self):
        self.close_calls += 1
        if self.fail_next_close and not self.closed:    # scripted (not chosen) close fault
            self.fail_next_close = False
            self.closed = True
            self.faults.append((self.tag, "close_exc", 1))
            raise serial.SerialException("injected close fault")
        if self.profile.close_exc and not self.closed:
            if self._choose(f"close{self.close_calls}", 2, "close_exc"):
                self.closed = True
                raise serial.SerialException("injected close fault")
        self.closed = True

    # -- observation ------------------------------------------------------------------
    def misattributed(self):
        return [(p, c, t) for (p, c, t) in self.ledger if p != c]

    def texts(self):
        """Requests that reached the board, as text."""
        return [w.decode("ascii") for w in self.writes]


# ---------------------------------------------------------------------------------------
#  Board models
# ---------------------------------------------------------------------------------------

NO_OK_QUERIES = ("A", "I", "MR", "PI", "QM", "QG", "V")      # documented single-line replies


class LegacyBoard:
    """Firmware 2.x syntax: commands answer OK, queries answer data (+ OK for most)."""

    def __init__(self, version="2.8.1", banner=None, nickname="", layer=0, rb_ack=False,
                 extra_queries=()):
        # further ordinary queries this firmware knows (a data line, then OK), by name
        self.extra_queries = {str(n).strip().upper() for n in extra_queries}
        self.rb_ack = rb_ack            # a board that acknowledges RB / BL before it restarts
        self.version = version
        self.banner = banner if banner is not None else \
            (None if version is None else "EBBv13_and_above EB Firmware Version " + version)
        self.nickname = nickname
        self.layer = layer
        self.pen_up = 1
        self.requests = []
        self.lost = []

    def note_lost(self, rid):
        self.lost.append(rid)

    def snapshot(self):
        return (self.version, self.nickname, self.layer, self.pen_up)

    def handle(self, request):
        self.requests.append(request)
        fields = [f.strip() for f in request.strip().split(",")]
        name = fields[0].upper()
        if name in self.extra_queries:
            return ["%d,%d" % (len(self.requests), len(name)), "OK"]
        if name == "V":
            return [self.banner] if self.banner is not None else []
        if name == "QB":
            return ["0", "OK"]
        if name == "QP":
            return [str(self.pen_up), "OK"]
        if name == "QS":
            return ["1234,-567", "OK"]
        if name == "QC":
            return ["0394,0300", "OK"]
        if name == "QL":
            return [str(self.layer), "OK"]
        if name == "QT":
            return [self.nickname, "OK"]
        if name == "QM":
            return ["QM,0,0,0,0"]
        if name == "QG":
            return ["3E"]
        if name == "PI":
            return ["PI,1"]
        if name == "I":
            return ["I,001,002,003,004,005"]
        if name == "A":
            return ["A,00:0713,02:0241"]
        if name == "MR":
            return ["MR,71"]
        if name == "SL":
            try:
                self.layer = int(fields[1])
            except (IndexError, ValueError):
                return ["!8 Err: bad parameter"]
            return ["OK"]
        if name == "ST":
            self.nickname = ",".join(fields[1:])[:16]
            return ["OK"]
        if name == "SP":
            try:
                self.pen_up = int(fields[1])
            except (IndexError, ValueError):
                pass
            return ["OK"]
        if name in ("RB", "BL"):
            return ["OK"] if self.rb_ack else []    # acknowledges, or drops off the bus at once
        return ["OK"]


MODE_TO_QE = {1: 16, 2: 8, 3: 4, 4: 2, 5: 1}


class EBB3Board:
    """Firmware 3.x: legacy syntax until CU,10,1 ; afterwards every reply starts with the name."""

    def __init__(self, version="3.0.2", banner=None, nickname="", future=False):
        self.version = version
        self.banner = banner if banner is not None else \
            (None if version is None else "EBBv13_and_above EB Firmware Version " + version)
        self.future = future
        self.motor1 = False
        self.motor2 = False
        self.mode = 1
        self.cu50 = 1
        self.ram = [0] * 32
        self.nickname = nickname
        self.steps = [0, 0]
        self.pen_up = 1
        self.requests = []
        self.lost = []
        self.rebooted = 0

    def note_lost(self, rid):
        self.lost.append(rid)

    def snapshot(self):
        return (self.future, self.motor1, self.motor2, self.mode, self.cu50, tuple(self.ram),
                self.nickname, tuple(self.steps), self.pen_up, self.rebooted)

    def motor_state(self):
        return (self.motor1, self.motor2, self.mode)

    def set_motor_state(self, motor1, motor2, mode):
        self.motor1, self.motor2, self.mode = motor1, motor2, mode

    def _reply(self, name, payload=None):
        if self.future:
            return [name if payload is None else name + "," + payload]
        # legacy syntax on a v3 board, before CU,10,1
        if payload is None:
            return ["OK"]
        if name.upper() in NO_OK_QUERIES:
            return [payload]
        return [payload, "OK"]

    def _error(self, name, text):
        if self.future:
            return [name + "," + text]
        return [text]

    def handle(self, request):          # pylint: disable=too-many-return-statements,too-many-branches
        self.requests.append(request)
        fields = [f.strip() for f in request.strip().split(",")]
        shown = fields[0]               # name echoed as typed
        name = shown.upper()
        args = fields[1:]
        try:
            if name == "V":
                if self.banner is None:
                    return []
                return self._reply(shown, self.banner)
            if name == "CU":
                if args and args[0] == "10":
                    self.future = args[1] != "0"
                    return ["CU"] if self.future else ["OK"]
                if args and args[0] == "50":
                    self.cu50 = int(args[1])
                return self._reply(shown)
            if name == "EM":
                e_1, e_2 = int(args[0]), int(args[1]) if len(args) > 1 else None
                if not 0 <= e_1 <= 5:
                    return self._error(shown, "!8 Err: Parameter outside allowed range")
                if e_1 == 0:
                    self.motor1 = False
                else:
                    self.motor1 = True
                    self.mode = e_1
                if e_2 is not None:
                    self.motor2 = e_2 != 0
                return self._reply(shown)
            if name == "QE":
                qe_1 = MODE_TO_QE[self.mode] if self.motor1 else 0
                qe_2 = MODE_TO_QE[self.mode] if self.motor2 else 0
                return self._reply(shown, f"{qe_1},{qe_2}")
            if name == "SL":
                value, index = int(args[0]), int(args[1]) if len(args) > 1 else 0
                if not (0 <= value <= 255 and 0 <= index <= 31):
                    return self._error(shown, "!8 Err: Parameter outside allowed range")
                self.ram[index] = value
                return self._reply(shown)
            if name == "QL":
                index = int(args[0]) if args else 0
                if not 0 <= index <= 31:
                    return self._error(shown, "!8 Err: Parameter outside allowed range")
                return self._reply(shown, str(self.ram[index]))
            if name == "ST":
                self.nickname = ",".join(args)[:16]
                return self._reply(shown)
            if name == "QT":
                return self._reply(shown, self.nickname)
            if name == "QC":
                return self._reply(shown, "0394,0300")
            if name == "QS":
                return self._reply(shown, f"{self.steps[0]},{self.steps[1]}")
            if name == "CS":
                self.steps = [0, 0]
                return self._reply(shown)
            if name == "QG":
                return self._reply(shown, "3E")
            if name == "QM":
                return self._reply(shown, "0,0,0,0")
            if name == "QB":
                return self._reply(shown, "0")
            if name == "QP":
                return self._reply(shown, str(self.pen_up))
            if name == "PI":
                return self._reply(shown, "1")
            if name == "SP":
                self.pen_up = int(args[0])
                return self._reply(shown)
            if name in ("RB", "BL"):
                self.rebooted += 1
                self.future = False
                return []
        except (ValueError, IndexError):
            return self._error(shown, "!8 Err: bad parameter")
        return self._reply(shown)


# ---------------------------------------------------------------------------------------
#  Stubs for the enumerator and the port constructor in the library's namespaces
# ---------------------------------------------------------------------------------------

class PortInfo(tuple):
    """comports() entry: indexable (device, description, hwid) like pyserial's ListPortInfo."""

    def __new__(cls, device, description, hwid):
        return super().__new__(cls, (device, description, hwid))


def serial_shim(factory):
    """Stand-in for the `serial` module object inside a plotink module."""
    return types.SimpleNamespace(
        Serial=factory,
        SerialException=serial.SerialException,
        SerialTimeoutException=serial.SerialTimeoutException,
        serialutil=serial.serialutil,
    )


class patched:                                      # pylint: disable=invalid-name
    """Context manager: temporarily replace attributes of a module."""

    def __init__(self, module, **attrs):
        self.module = module
        self.attrs = attrs
        self.saved = {}

    def __enter__(self):
        for key, val in self.attrs.items():
            self.saved[key] = getattr(self.module, key)
            setattr(self.module, key, val)
        return self

    def __exit__(self, *exc):
        for key, val in self.saved.items():
            setattr(self.module, key, val)
        return False


class VirtualClock:
    """with VirtualClock() as clock: time.monotonic / time.time / time.perf_counter answer from
    a counter that only advances when the fake port says so (an empty read that blocks for its
    timeout) - wall-clock time is one more source of nondeterminism the harness owns."""

    def __init__(self, start=1000.0):
        self.now = start
        self._saved = None

    def advance(self, seconds):
        self.now += seconds

    def _read(self):
        return self.now

    def __enter__(self):
        import time                         # pylint: disable=import-outside-toplevel
        self._saved = (time.monotonic, time.time, time.perf_counter)
        time.monotonic = time.time = time.perf_counter = self._read
        return self

    def __exit__(self, *exc):
        import time                         # pylint: disable=import-outside-toplevel
        time.monotonic, time.time, time.perf_counter = self._saved
        return False
