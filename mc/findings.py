"""KNOWN_FINDINGS.txt - committed, read-only at run time.

  finding: property=CNN key=<canonical case key> <what fails>
  fixed:   property=CNN <commit> <what failed>

A violation whose canonical key equals the key of a `finding:` line of the same property
is printed as KNOWN-FINDING and does not fail the run.  `fixed:` lines suppress nothing.
"""
import os
import re

from . import VERIF_ROOT

PATH = os.path.join(VERIF_ROOT, "KNOWN_FINDINGS.txt")
_LINE = re.compile(r"^finding:\s+property=(C\d+)\s+key=(\S+)\s+(.*)$")


def load(path=PATH):
    found = {}
    if not os.path.exists(path):
        return found
    with open(path, encoding="utf-8") as handle:
        for raw in handle:
            match = _LINE.match(raw.strip())
            if match:
                found[(match.group(1), match.group(2))] = match.group(3)
    return found
