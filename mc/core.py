"""Shared plumbing: run context, result accumulation, deterministic 16-way fan-out, watchdog."""
import hashlib
import json
import multiprocessing
import os
import signal
import time

MAX_VIOLATIONS_KEPT = 40
KNOWN_KEYS = set()             # keys of listed known findings of the property being run
STOP_AFTER_CHUNKS = 4          # chunks stopped early after which the remaining chunks are skipped
FAIL_FAST_AFTER = 400          # violating cases per chunk after which the chunk stops exploring


_GUARD = {"depth": 0}          # > 0 while a chunk function runs under fan_out (fail-fast armed)


class EnoughViolations(Exception):
    """Raised by Part.violation once a chunk has seen FAIL_FAST_AFTER violating cases."""

    def __init__(self, part):
        super().__init__("enough violations")
        self.part = part


class Ctx:
    """Run context handed to a property module."""

    def __init__(self, tier, seed, jobs):
        self.tier = tier
        self.seed = seed
        self.jobs = jobs
        self.t0 = time.time()

    @property
    def thorough(self):
        return self.tier == "thorough"

    def pick(self, quick, thorough):
        return thorough if self.thorough else quick


class Part:
    """What one chunk of an exploration found; Parts add up."""

    def __init__(self):
        self.counters = {}
        self.violations = []        # dicts: key, msg, case
        self.violation_count = 0
        self.unlisted_count = 0     # violating cases whose key is not a listed known finding
        self.samples = []
        self.sets = {}              # name -> set of hashable items (merged by union)

    def count(self, name, amount=1):
        self.counters[name] = self.counters.get(name, 0) + amount

    def _room_for(self, key):
        """At most MAX_VIOLATIONS_KEPT violations are kept per *family* (the key up to its first
        colon), so that a flood from one clause does not crowd out the - possibly simpler, or
        self-contained - counterexamples of another."""
        family = key.split(":", 1)[0]
        same = [v["key"] for v in self.violations if v["key"].split(":", 1)[0] == family]
        return len(same) < MAX_VIOLATIONS_KEPT and key not in same and \
            len(self.violations) < 6 * MAX_VIOLATIONS_KEPT

    def violation(self, key, msg, case):
        self.violation_count += 1
        if self._room_for(key):
            self.violations.append({"key": key, "msg": msg, "case": case})
        if key not in KNOWN_KEYS:
            self.unlisted_count += 1
            if key.startswith("loop"):          # a case that ran into the watchdog costs seconds
                self.unlisted_count += FAIL_FAST_AFTER // 2
        if self.unlisted_count >= FAIL_FAST_AFTER and _GUARD["depth"] > 0:
            # the verdict is settled; do not keep exploring a tree that is broken (a defect can
            # also make every further case slower, e.g. state that grows across calls)
            raise EnoughViolations(self)

    def add(self, name, item):
        self.sets.setdefault(name, set()).add(item)

    def size(self, name):
        return len(self.sets.get(name, ()))

    def sample(self, item, limit=4):
        if len(self.samples) < limit:
            self.samples.append(item)

    def merge(self, other):
        for name, amount in other.counters.items():
            if name.startswith("max_"):
                self.counters[name] = max(self.counters.get(name, 0), amount)
            else:
                self.counters[name] = self.counters.get(name, 0) + amount
        self.violation_count += other.violation_count
        for viol in other.violations:
            if self._room_for(viol["key"]):
                self.violations.append(viol)
        for item in other.samples:
            if len(self.samples) < 12:
                self.samples.append(item)
        for name, items in other.sets.items():
            self.sets.setdefault(name, set()).update(items)
        return self


def _worker_init():
    signal.signal(signal.SIGINT, signal.SIG_IGN)


_STOPPED = {"counter": None}    # shared counter of chunks stopped early (inherited through fork)


class _Guarded:                                     # pylint: disable=too-few-public-methods
    """Picklable wrapper: a chunk that hits the fail-fast limit returns what it has, and once
    a few chunks have done so the remaining chunks return at once (a shared counter inherited
    through fork; the pool is never terminated - terminating a busy pool can deadlock)."""

    def __init__(self, func):
        self.func = func

    def __call__(self, chunk):
        stopped = _STOPPED["counter"]
        if stopped is not None and stopped.value >= STOP_AFTER_CHUNKS:
            skipped = Part()
            skipped.count("chunks_skipped_after_stop")
            return skipped
        _GUARD["depth"] += 1
        try:
            return self.func(chunk)
        except EnoughViolations as stop:
            stop.part.count("chunks_stopped_early")
            if stopped is not None:
                with stopped.get_lock():
                    stopped.value += 1
            return stop.part
        finally:
            _GUARD["depth"] -= 1


def fan_out(ctx, func, chunks):
    """Apply func(chunk) -> Part to every chunk, results folded in chunk order.

    Deterministic: the chunk list does not depend on the number of workers and results
    are merged in list order.  With one job (or one chunk) everything runs in-process.
    """
    total = Part()
    chunks = list(chunks)
    mp_ctx = multiprocessing.get_context("fork")
    _STOPPED["counter"] = mp_ctx.Value("i", 0)       # fresh for every exploration
    func = _Guarded(func)
    if ctx.jobs <= 1 or len(chunks) <= 1:
        for chunk in chunks:
            total.merge(func(chunk))
        return total
    with mp_ctx.Pool(min(ctx.jobs, len(chunks)), initializer=_worker_init) as pool:
        for part in pool.imap(func, chunks, chunksize=1):
            total.merge(part)
    return total


def split(items, n_chunks):
    """Split a list into at most n_chunks interleaved slices (balanced for sorted lattices)."""
    items = list(items)
    n_chunks = max(1, min(n_chunks, len(items)))
    return [items[k::n_chunks] for k in range(n_chunks)]


class CaseTimeout(Exception):
    """A single case exceeded its wall-clock allowance (termination clause)."""


def _alarm(_signum, _frame):
    raise CaseTimeout()


class watchdog:                                     # pylint: disable=invalid-name
    """with watchdog(seconds): ...   raises CaseTimeout inside the block if it overruns.

    The allowance is measured in *processor time of this process* (ITIMER_VIRTUAL): a case that
    does not terminate burns processor time and is caught, while a case that merely waits for a
    busy machine to give it a turn is not.  A wall-clock backstop at twenty times the allowance
    (plus a minute) covers code that would block without computing."""

    def __init__(self, seconds=5.0):
        self.seconds = seconds
        self.old = None
        self.old_real = None

    def __enter__(self):
        self.old = signal.signal(signal.SIGVTALRM, _alarm)
        self.old_real = signal.signal(signal.SIGALRM, _alarm)
        signal.setitimer(signal.ITIMER_VIRTUAL, self.seconds)
        signal.setitimer(signal.ITIMER_REAL, 20 * self.seconds + 60)
        return self

    def __exit__(self, *exc):
        signal.setitimer(signal.ITIMER_VIRTUAL, 0)
        signal.setitimer(signal.ITIMER_REAL, 0)
        signal.signal(signal.SIGVTALRM, self.old)
        signal.signal(signal.SIGALRM, self.old_real)
        return False


def digest(obj):
    """Short stable hash of a JSON-serialisable observation."""
    return hashlib.sha1(json.dumps(obj, sort_keys=True, default=repr).encode()).hexdigest()[:16]


# the word "clear" as an application gets it from a file, a message or another process: equal to
# the literal but a different object (an identity test against a module constant misses it)
RUNTIME_CLEAR = "".join(("cl", "ear"))
_LITERAL_CLEAR = "clear"
assert RUNTIME_CLEAR == _LITERAL_CLEAR and RUNTIME_CLEAR is not _LITERAL_CLEAR


def rejected(func, *args, **kwargs):
    """Make a call that the library must reject (malformed arguments) and ignore the outcome.
    What a rejected call leaves behind - a flag, a half-written cache entry, a changed global -
    must not change the answer to the valid call that follows."""
    try:
        func(*args, **kwargs)
    except Exception:                       # pylint: disable=broad-except
        pass


def seeded_ints(seed, salt, count, max_bits=31, signed=True):
    """Deterministic seed-derived extension values for a numeric axis (never a sample of a
    larger space: they *extend* the fixed alphabet, and the product is still enumerated)."""
    out = []
    for k in range(count):
        raw = hashlib.sha256(f"{seed}/{salt}/{k}".encode()).digest()
        bits = 1 + raw[0] % max_bits
        val = int.from_bytes(raw[1:9], "big") % (1 << bits)
        val |= 1 << (bits - 1)
        if signed and raw[9] & 1:
            val = -val
        out.append(val)
    return out


def rotate(items, seed, limit):
    """Seed-rotated window of at most `limit` items (which cases are written as samples)."""
    items = list(items)
    if not items:
        return []
    start = seed % len(items)
    return (items[start:] + items[:start])[:limit]


def jobs_default():
    try:
        return int(os.environ.get("VERIF_JOBS", "") or min(16, os.cpu_count() or 1))
    except ValueError:
        return 16


class debug_logging:                                    # pylint: disable=invalid-name
    """Context manager: the application has switched logging to DEBUG (root and the whole
    `plotink` logger tree) - a module-level setting a user may legitimately change.  Records go
    to a null handler; levels and handlers are restored on exit."""

    def __enter__(self):
        import logging                                  # pylint: disable=import-outside-toplevel
        self._logging = logging
        self._null = logging.NullHandler()
        names = [""] + [n for n in logging.root.manager.loggerDict if n.startswith("plotink")]
        if "plotink" not in names:
            names.append("plotink")
        self._saved = []
        for name in names:
            logger = logging.getLogger(name) if name else logging.getLogger()
            self._saved.append((logger, logger.level))
            logger.setLevel(logging.DEBUG)
        logging.getLogger().addHandler(self._null)
        return self

    def __exit__(self, *exc):
        for logger, level in self._saved:
            logger.setLevel(level)
        self._logging.getLogger().removeHandler(self._null)
        return False


def quiet_legacy_logger():
    """Route plotink.ebb_serial's logger into a counting sink (no stderr noise)."""
    import logging                                      # pylint: disable=import-outside-toplevel
    from plotink import ebb_serial                      # pylint: disable=import-outside-toplevel

    class Sink(logging.Handler):
        def __init__(self):
            super().__init__(level=logging.DEBUG)
            self.count = 0

        def emit(self, record):
            try:
                record.getMessage()
            except Exception:                           # pylint: disable=broad-except
                pass
            self.count += 1

    for handler in ebb_serial.logger.handlers:
        if type(handler).__name__ == "Sink":
            return handler
    sink = Sink()
    ebb_serial.logger.handlers = [sink]
    ebb_serial.logger.setLevel(logging.DEBUG)
    ebb_serial.logger.propagate = False
    return sink


def by_keyword(func, args, observe=None):
    """The call made positionally and made with every argument by name must come to the same
    thing - "every input" includes every way Python lets a caller hand the input over (a
    wrapper that forwards *args only, a parameter renamed in one place).  Arguments are deep
    copies each time; `observe(result, args)` says what to compare (default: the result; for
    functions that work in place, the argument afterwards).  Returns None or a message."""
    import copy                             # pylint: disable=import-outside-toplevel
    import inspect                          # pylint: disable=import-outside-toplevel
    names = list(inspect.signature(func).parameters)[:len(args)]
    outcomes = []
    for named in (False, True):
        mine = copy.deepcopy(list(args))
        try:
            got = func(**dict(zip(names, mine))) if named else func(*mine)
            outcomes.append(("value", observe(got, mine) if observe else got))
        except Exception as exc:            # pylint: disable=broad-except
            outcomes.append(("raised", type(exc).__name__))
    if outcomes[0] != outcomes[1] and repr(outcomes[0]) != repr(outcomes[1]):
        shown = ", ".join(f"{k}={v!r}" for k, v in zip(names, args))
        return (f"{getattr(func, '__name__', func)}({shown}) with every argument by name gives "
                f"{outcomes[1]!r}, the same call made positionally gives {outcomes[0]!r}")[:700]
    return None


def harvest_strings(module, max_len=40):
    """String literals in a module's source (docstrings excluded): separators, markers and
    sentinels the code itself uses.  A marker that may not occur in the data is, for the code
    that relies on it, the one input worth trying."""
    import ast                              # pylint: disable=import-outside-toplevel
    import inspect                          # pylint: disable=import-outside-toplevel
    try:
        tree = ast.parse(inspect.getsource(module))
    except (OSError, TypeError, SyntaxError):
        return []
    docs = set()
    for node in ast.walk(tree):
        if isinstance(node, (ast.FunctionDef, ast.ClassDef, ast.Module, ast.AsyncFunctionDef)):
            body = getattr(node, "body", [])
            if body and isinstance(body[0], ast.Expr) and isinstance(body[0].value, ast.Constant) \
                    and isinstance(body[0].value.value, str):
                docs.add(id(body[0].value))
    found = []
    for node in ast.walk(tree):
        if isinstance(node, ast.Constant) and isinstance(node.value, str) and id(node) not in docs \
                and 0 < len(node.value) <= max_len and node.value not in found:
            found.append(node.value)
    return found


def harvest_ratios(module):
    """Float literals strictly between 0 and 1 in a module's source: shares and fill factors (a
    node "95 % full", a quadrant holding "all but 0.5 %").  A count-based rule built on a share r
    changes its mind near 1/r and 1/(1-r) items."""
    import ast                              # pylint: disable=import-outside-toplevel
    import inspect                          # pylint: disable=import-outside-toplevel
    try:
        tree = ast.parse(inspect.getsource(module))
    except (OSError, TypeError, SyntaxError):
        return []
    return sorted({node.value for node in ast.walk(tree)
                   if isinstance(node, ast.Constant) and isinstance(node.value, float)
                   and 0.0 < node.value < 1.0})


def harvest_ints(module, low=8, high=1 << 40):
    """Whole-number literals in a module's source (also inside float literals like 1e15 and in
    simple constant expressions of two literals): the thresholds, block sizes and caps the code
    itself singles out.  Feeding them (and their small multiples and neighbours) to the
    alphabets of lengths, counts and tick numbers makes the exploration follow the code under
    test instead of guessing round numbers."""
    import ast                              # pylint: disable=import-outside-toplevel
    import inspect                          # pylint: disable=import-outside-toplevel
    import math                             # pylint: disable=import-outside-toplevel
    try:
        tree = ast.parse(inspect.getsource(module))
    except (OSError, TypeError, SyntaxError):
        return []
    found = set()

    def fold(node):
        """Value of an arithmetic expression made of number literals only, else None."""
        if isinstance(node, ast.Constant):
            ok = isinstance(node.value, (int, float)) and not isinstance(node.value, bool)
            return node.value if ok else None
        if isinstance(node, ast.UnaryOp) and isinstance(node.op, (ast.USub, ast.UAdd)):
            val = fold(node.operand)
            return None if val is None else (-val if isinstance(node.op, ast.USub) else val)
        if isinstance(node, ast.BinOp):
            left, right = fold(node.left), fold(node.right)
            if left is None or right is None:
                return None
            try:
                if isinstance(node.op, ast.Add):
                    return left + right
                if isinstance(node.op, ast.Sub):
                    return left - right
                if isinstance(node.op, ast.Mult):
                    return left * right
                if isinstance(node.op, ast.FloorDiv):
                    return left // right
                if isinstance(node.op, ast.Div):
                    return left / right
                if isinstance(node.op, ast.LShift) and 0 <= right <= 64:
                    return left << right
                if isinstance(node.op, ast.Pow) and abs(right) <= 64 and abs(left) <= 1 << 16:
                    return left ** right
            except (ArithmeticError, TypeError, ValueError):
                return None
        return None

    nodes = []
    for node in ast.walk(tree):
        if isinstance(node, ast.BinOp):
            val = fold(node)
            if val is not None and not isinstance(val, complex):
                nodes.append(val)
        elif isinstance(node, ast.Constant) and isinstance(node.value, (int, float)) and \
                not isinstance(node.value, bool):
            nodes.append(node.value)
    for val in nodes:
        if True:
            if isinstance(val, float):
                if not math.isfinite(val):
                    continue
                cands = [int(val)] if val == int(val) else []
                if val > 0:
                    cands.append(int(math.isqrt(int(val)))) if val < 1e30 else None
            else:
                cands = [val]
            for cand in cands:
                if low <= abs(cand) <= high:
                    found.add(abs(cand))
    return sorted(found)
