"""C01 - timed-move prediction equals the firmware step-accumulator recurrence.

The LT machine of mc/firmware.py is stepped from every initial state of a boundary lattice;
at every state it visits, the library's closed-form prediction (and the deprecated aliases)
is compared with the machine.  Long moves use the closed integer sum, which is itself
compared with the stepped machine at every short state.
"""
import itertools

from .. import core
from ..firmware import (RATE_MAX, TWO31, lt_clear_value, lt_in_domain, lt_states,
                        lt_total_closed, split31)

PROPERTY = "C01"

P27, P29, P30, P31 = 1 << 27, 1 << 29, 1 << 30, 1 << 31


def _pm(values):
    out = set()
    for val in values:
        out.add(val)
        out.add(-val)
    return out


def alphabets(ctx):
    rate = _pm([0, 1, 2, 3, P29, P30, P30 + 1, P31 - 2, P31 - 1, 123456789]) | {P30 - 1}
    accel = _pm([0, 1, 2, 3, 5, P27, P27 + 1, 50353403, P30, P30 + 1, P31 - 1])
    accum = [core.RUNTIME_CLEAR, 0, 1, P30, P31 - 2, P31 - 1]
    ticks = 64
    extra = 3
    if ctx.thorough:
        for bits in (8, 16, 24, 28):
            rate |= _pm([1 << bits, (1 << bits) + 1, (1 << bits) - 1])
            accel |= _pm([1 << bits, (1 << bits) + 1, (1 << bits) - 1])
        accum += [2, P30 - 1, P30 + 1, 123456789]
        ticks = 256
        extra = 6
    # seed-derived extension of the alphabets (the product is still enumerated completely)
    rate |= set(core.seeded_ints(ctx.seed, "c01.rate", extra, 31))
    accel |= set(core.seeded_ints(ctx.seed, "c01.accel", extra, 31))
    accum += [abs(v) for v in core.seeded_ints(ctx.seed, "c01.accum", 2, 31, signed=False)]
    rate = sorted(v for v in rate if abs(v) <= RATE_MAX)
    accel = sorted(v for v in accel if abs(v) <= RATE_MAX)
    return rate, accel, accum, ticks


LONG_T = [257, 4096, (1 << 16) - 1, (1 << 20) + 3, 1 << 24, (1 << 28) + 1, 1 << 31,
          (1 << 32) - 1]
DPS_CONFIGS = [("dps", 1), ("dps", 15), ("dps", 30), ("dps", 100), ("prec", 20)]
CONFIG_TICKS = (1, 2, 3, 17, 64)


def _lib():
    from plotink import ebb_calc, ebb_motion        # pylint: disable=import-outside-toplevel
    import mpmath                                   # pylint: disable=import-outside-toplevel
    return ebb_calc, ebb_motion, mpmath


def _set_ambient(mpmath, config):
    if config is None:
        mpmath.mp.prec = 53         # mpmath's default: the harness owns the ambient setting
        return
    kind, value = config
    if kind == "dps":
        mpmath.mp.dps = value
    else:
        mpmath.mp.prec = value


def check_case(rate, accel, ticks, accum, config, expect):
    """Call the real predictors for one case; return list of (clause, message)."""
    ebb_calc, ebb_motion, mpmath = _lib()
    out = []
    want = split31(expect)
    desc = f"rate={rate} accel={accel} T={ticks} accum={accum} ambient={config}"
    calls = [("move_dist_lt", lambda: ebb_calc.move_dist_lt(rate, accel, ticks, accum)),
             ("moveDistLMA", lambda: ebb_motion.moveDistLMA(rate, accel, ticks, accum))]
    for name, call in calls:
        _set_ambient(mpmath, config)
        try:
            got = call()
        except Exception as exc:                    # pylint: disable=broad-except
            out.append((name, f"{name}({desc}) raised {exc!r}"))
            continue
        if tuple(got) != want or not all(isinstance(v, int) for v in got):
            out.append((name, f"{name}({desc}) = {got!r}, firmware recurrence gives {want!r}"))
    if accum == 0:
        _set_ambient(mpmath, config)
        try:
            got = ebb_motion.moveDistLM(rate, accel, ticks)
        except Exception as exc:                    # pylint: disable=broad-except
            out.append(("moveDistLM", f"moveDistLM({desc}) raised {exc!r}"))
        else:
            if got != want[0]:
                out.append(("moveDistLM", f"moveDistLM({desc}) = {got!r}, recurrence "
                            f"position {want[0]}"))
    return out


def _case(rate, accel, ticks, accum, config):
    return {"kind": "lt", "rate": rate, "accel": accel, "ticks": ticks, "accum": accum,
            "config": list(config) if config else None}


def _rows_chunk(args):
    rows, max_ticks = args
    part = core.Part()
    _ebb_calc, _ebb_motion, mpmath = _lib()
    saved = (mpmath.mp.prec,)
    for rate, accel, accum in rows:
        visited = 0
        for k, _rate_k, total in lt_states(rate, accel, accum, max_ticks):
            visited += 1
            if lt_total_closed(rate, accel, accum, k) != total:
                raise AssertionError("reference closed form disagrees with the stepped machine")
            part.count("model_conformance_checks")
            configs = [None]
            if k in CONFIG_TICKS:
                configs += DPS_CONFIGS
            for config in configs:
                bad = check_case(rate, accel, k, accum, config, total)
                part.count("impl_calls", 3 if accum == 0 else 2)
                if config is not None:
                    part.count("ambient_config_cases")
                for clause, msg in bad:
                    part.violation(f"{clause}:{rate},{accel},{k},{accum},{config}", msg,
                                   _case(rate, accel, k, accum, config))
            if not 0 <= total < TWO31:
                part.count("nontrivial")
            if accum == "clear" and lt_clear_value(rate, accel) != 0:
                part.count("clear_to_max_states")
        part.count("states", visited)
        if visited:
            part.count("rows_in_domain")
            part.sample({"rate": rate, "accel": accel, "accum": accum, "ticks_stepped": visited,
                         "final": list(split31(lt_total_closed(rate, accel, accum, visited)))},
                        limit=2)
        part.count("rows")
    mpmath.mp.prec = saved[0]
    return part


def long_rows(rates, accums):
    rows = []
    for ticks in LONG_T:
        for rate in rates:
            room = (RATE_MAX - abs(rate)) // ticks
            accels = {0, 1, -1, 2, -2, 3, -3, room, -room, room - 1, -(room - 1), room + 1,
                      -(room + 1), -(2 * abs(rate)) // ticks, (2 * abs(rate)) // ticks}
            for accel in sorted(accels):
                if not lt_in_domain(rate, accel, ticks):
                    continue
                for accum in accums:
                    rows.append((rate, accel, ticks, accum))
                # ... and start accumulators that make the long move end one count below, on and
                # one count above a step boundary
                base = lt_total_closed(rate, accel, 0, ticks)
                for target in (TWO31 - 1, TWO31 - 2, 0, 1):
                    rows.append((rate, accel, ticks, (target - base) % TWO31))
    return rows


def power_window_rows():
    """Long fast moves on a product lattice around powers of two *with the neighbours at
    distance 2 and 3* (rate = 2^a + d, T = 2^c + e): the places where rate * T just misses or
    just crosses a power of two, i.e. where a working precision sized from the operands' bit
    lengths has no room for the carry of the sum.  Odd accelerations, explicit accumulators."""
    rows = []
    for a_exp in (26, 27, 29, 30, 31):
        for d_r in (-3, -2, -1, 0, 1):
            rate = (1 << a_exp) + d_r
            for c_exp in (22, 23, 24, 26, 31):
                for d_t in (-3, -2, -1, 0, 1):
                    ticks = (1 << c_exp) + d_t
                    for accel in (-3, -1, 1, 3):
                        for sgn in (1, -1):
                            if not lt_in_domain(sgn * rate, accel, ticks):
                                continue
                            for accum in (1, 2000000001, TWO31 - 1):
                                rows.append((sgn * rate, accel, ticks, accum))
    return rows


def harvested_rows():
    """Tick counts taken from the whole-number literals of ebb_calc's own source - c, 2c, 3c and
    their neighbours: if the code cuts long moves into blocks, the block size is in its text."""
    ebb_calc, _motion, _mp = _lib()
    rows = []
    for const in core.harvest_ints(ebb_calc, low=8, high=1 << 31):
        for ticks in sorted({const - 1, const, const + 1, 2 * const - 1, 2 * const, 2 * const + 1,
                             3 * const, 5 * const + 1}):
            if not 1 <= ticks < (1 << 32):
                continue
            for rate, accel in ((1000, 0), (-7, 0), (3, 1), (123456, -3), (0, 1)):
                if not lt_in_domain(rate, accel, ticks):
                    continue
                for accum in (core.RUNTIME_CLEAR, 5, TWO31 - 1):
                    rows.append((rate, accel, ticks, accum))
    return rows


def product_bound_rows():
    """Moves whose products rate x T and accel x T^2 sit just below a magnitude at which an
    evaluation in machine numbers stops being exact (2^52, 2^53: half-integers and integers of a
    double; 2^63, 2^64: machine words) or below any large constant written in ebb_calc's own
    source: rate = floor((B - 1) / T) and one less, accel small and odd or even, T odd and even
    around every power of two and 3 x 2^k from 2^10 up."""
    ebb_calc, _motion, _mp = _lib()
    bounds = {1 << 52, 1 << 53, 1 << 63, 1 << 64} | \
        set(core.harvest_ints(ebb_calc, low=1 << 33, high=1 << 70))
    tick_counts = set()
    for power in range(10, 32):
        for base in (1 << power, 3 << (power - 1)):
            tick_counts |= {base - 1, base, base + 1, base + 2 * power + 1}
    for const in core.harvest_ints(ebb_calc, low=1 << 10, high=1 << 32):
        tick_counts |= {const - 3, const - 2, const - 1, const, const + 1}
    rows = []
    for bound in sorted(bounds):
        for ticks in sorted(t for t in tick_counts if 1 <= t < (1 << 32)):
            for rate_mag in ((bound - 1) // ticks, (bound - 1) // ticks - 1):
                if not 0 < rate_mag < TWO31:
                    continue
                for sign in (1, -1):
                    for accel_mag in (0, 1, 2, 3):
                        for accel_sign in (1, -1):
                            rate, accel = sign * rate_mag, accel_sign * accel_mag
                            if (accel == 0 and accel_sign < 0) or \
                                    not lt_in_domain(rate, accel, ticks):
                                continue
                            for accum in (core.RUNTIME_CLEAR, 0, TWO31 - 1):
                                rows.append((rate, accel, ticks, accum))
            # ... and the acceleration's own product accel x T^2 just below the bound
            accel_mag = (bound - 1) // (ticks * ticks)
            for accel in (accel_mag, -accel_mag, accel_mag - 1, 1 - accel_mag):
                for rate in (0, 1, -3):
                    if accel and lt_in_domain(rate, accel, ticks):
                        rows.append((rate, accel, ticks, core.RUNTIME_CLEAR))
    return rows


def _window_chunk(rows):
    part = core.Part()
    for rate, accel, ticks, accum in rows:
        total = lt_total_closed(rate, accel, accum, ticks)
        for clause, msg in check_case(rate, accel, ticks, accum, None, total):
            part.violation(f"{clause}:{rate},{accel},{ticks},{accum},None", msg,
                           _case(rate, accel, ticks, accum, None))
        part.count("impl_calls", 2)
        part.count("long_moves")
        part.count("power_window_moves")
    return part


def _long_chunk(rows):
    part = core.Part()
    _ebb_calc, _ebb_motion, mpmath = _lib()
    saved = mpmath.mp.prec
    for rate, accel, ticks, accum in rows:
        total = lt_total_closed(rate, accel, accum, ticks)
        for config in [None] + DPS_CONFIGS:
            bad = check_case(rate, accel, ticks, accum, config, total)
            part.count("impl_calls", 3 if accum == 0 else 2)
            if config is not None:
                part.count("ambient_config_cases")
            for clause, msg in bad:
                part.violation(f"{clause}:{rate},{accel},{ticks},{accum},{config}", msg,
                               _case(rate, accel, ticks, accum, config))
        part.count("long_moves")
        if not 0 <= total < TWO31:
            part.count("nontrivial")
    mpmath.mp.prec = saved
    return part


def run(ctx):
    rates, accels, accums, max_ticks = alphabets(ctx)
    rows = list(itertools.product(rates, accels, accums))
    chunks = [(chunk, max_ticks) for chunk in core.split(rows, 64)]
    part = core.fan_out(ctx, _rows_chunk, chunks)
    longs = long_rows(rates, accums)
    part.merge(core.fan_out(ctx, _long_chunk, core.split(longs, 32)))
    part.merge(core.fan_out(ctx, _window_chunk, core.split(power_window_rows(), 32)))
    part.merge(core.fan_out(ctx, _window_chunk, core.split(harvested_rows(), 8)))
    part.merge(core.fan_out(ctx, _window_chunk, core.split(product_bound_rows(), 32)))
    from .. import calcseq                 # pylint: disable=import-outside-toplevel
    part.merge(calcseq.explore(ctx, ['move_dist_lt']))
    from .. import callforms              # pylint: disable=import-outside-toplevel
    part.merge(callforms.explore("C01"))
    cnt = part.counters
    states = cnt.get("states", 0) + cnt.get("long_moves", 0)
    coverage = {
        "states": states,
        "transitions": states,
        "traces_validated_against_impl": cnt.get("impl_calls", 0),
        "evaluations": cnt.get("impl_calls", 0),
        "distinct_nontrivial": cnt.get("nontrivial", 0),
        "rule": "LT machine stepped from every (rate, accel, accumulator|clear) of the boundary "
                "lattice for up to max_ticks ticks inside the 31-bit rate domain; the real "
                "move_dist_lt / moveDistLMA / moveDistLM are called at every visited state; "
                "long moves (T up to 2^32-1) use the closed integer sum validated against the "
                "stepped machine; non-trivial = states whose accumulator total left [0,2^31) so "
                "that position and remainder are not the identity; all tuples distinct",
        "samples": core.rotate(part.samples, ctx.seed, 4),
        "rows": cnt.get("rows", 0),
        "rows_in_domain": cnt.get("rows_in_domain", 0),
        "max_ticks": max_ticks,
        "long_moves": cnt.get("long_moves", 0),
        "ambient_config_cases": cnt.get("ambient_config_cases", 0),
        "clear_to_max_states": cnt.get("clear_to_max_states", 0),
        "model_conformance_checks": cnt.get("model_conformance_checks", 0),
        "alphabet_sizes": {"rate": len(rates), "accel": len(accels), "accum": len(accums)},
        "call_histories_siblings_then_twice": cnt.get("calc_histories", 0),
        "exhaustive": True,
    }
    assumptions = [
        "the firmware recurrence is the one in the property statement (mc/firmware.py)",
        "exhaustive over the stated lattice only; tuples outside it are not covered",
        "ambient configurations: mpmath.mp.dps in {1,15,30,100} and mp.prec=20 set before the call",
    ]
    coverage["rule"] += ("; moves with rate x T and accel x T^2 just below 2^52, 2^53, 2^63, 2^64 and every large constant of the module's source, T odd and even around every power of two and 3 x 2^k from 2^10 (product_bound_rows)")
    return {"part": part, "coverage": coverage, "assumptions": assumptions}


def replay(case):
    if case.get("kind") == "callform":
        from .. import callforms          # pylint: disable=import-outside-toplevel
        return callforms.replay(case)
    if str(case.get("kind")).startswith("calc_"):
        from .. import calcseq             # pylint: disable=import-outside-toplevel
        return calcseq.replay(case)
    rate, accel, ticks, accum = case["rate"], case["accel"], case["ticks"], case["accum"]
    config = tuple(case["config"]) if case.get("config") else None
    if ticks <= 4096:
        total = None
        for k, _r, tot in lt_states(rate, accel, accum, ticks):
            if k == ticks:
                total = tot
        if total is None:
            return []
    else:
        total = lt_total_closed(rate, accel, accum, ticks)
    _c, _m, mpmath = _lib()
    saved = mpmath.mp.prec
    try:
        return [msg for _cl, msg in check_case(rate, accel, ticks, accum, config, total)]
    finally:
        mpmath.mp.prec = saved
