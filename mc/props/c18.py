"""C18 - travel-limit helpers return an in-range value and flag exactly the outliers.

Full product of (value, lower, upper, tolerance) over dyadic rationals (every float sum and
difference is exact), integers and mixed int/float, values exactly on a bound, one quantum
inside/outside, on bound +- tolerance, degenerate ranges; the 2-D test over all point pairs.
"""
import itertools
import math
from fractions import Fraction as F

from .. import core

PROPERTY = "C18"
BASE = [-2, -1, -0.5, -0.125, 0, 0.125, 0.5, 1, 1.5, 2, 3]
TINY = 2.0 ** -60          # far below machine epsilon: still a distinct band around a bound of 0
TOLS = [0, TINY, 0.125, 0.5, 1]


def _lib():
    from plotink import plot_utils          # pylint: disable=import-outside-toplevel
    return plot_utils


def clampf(value, low, high):
    return low if value < low else (high if value > high else value)


KNOWN_ROUNDING = "tolerance/int-bound-beyond-2^53-with-float-tolerance"


def twin(num):
    """The same number as the other kind of Python number, where one exists that compares equal
    (3 <-> 3.0, 2^53 + 2 <-> 9007199254740994.0): equal for ==, for hash() and hence for any
    cache - and not the same once a tolerance is added to it."""
    if isinstance(num, bool):
        return num
    try:
        if isinstance(num, int) and float(num) == num:
            return float(num)
        if isinstance(num, float) and num.is_integer():
            return int(num)
    except (OverflowError, ValueError):
        pass
    return num


def _twin_calls(plot_utils, value, low, high, tol):
    """The calls under test made first with every argument replaced by its twin (an earlier,
    unrelated request with equal-looking numbers); outcomes are not judged here."""
    try:
        plot_utils.checkLimits(twin(value), twin(low), twin(high))
        plot_utils.constrainLimits(twin(value), twin(low), twin(high))
        plot_utils.checkLimitsTol(twin(value), twin(low), twin(high), twin(tol))
    except Exception:                       # pylint: disable=broad-except
        pass


def check_scalar(value, low, high, tol):
    plot_utils = _lib()
    out = []
    _twin_calls(plot_utils, value, low, high, tol)
    v_f, l_f, h_f, t_f = F(value), F(low), F(high), F(tol)
    want = clampf(v_f, l_f, h_f)
    outside = v_f < l_f or v_f > h_f
    far = v_f < l_f - t_f or v_f > h_f + t_f
    desc = f"(value={value!r}, lower={low!r}, upper={high!r})"
    core.rejected(plot_utils.checkLimitsTol, "a", low, high, tol)
    core.rejected(plot_utils.point_in_bounds, [value], [[low, low], [high, high]], tol)
    try:
        got, flag = plot_utils.checkLimits(value, low, high)
        if F(got) != want or flag is not outside:
            out.append(("checkLimits", f"checkLimits{desc} = {(got, flag)!r}, expected "
                        f"({float(want)!r}, {outside})"))
        if not l_f <= F(got) <= h_f:
            out.append(("range", f"checkLimits{desc} returned {got!r} outside the range"))
        got, flag = plot_utils.checkLimitsTol(value, low, high, tol)
        if F(got) != want or flag is not far:
            out.append(("checkLimitsTol", f"checkLimitsTol{desc[:-1]}, tolerance={tol!r}) = "
                        f"{(got, flag)!r}, expected ({float(want)!r}, {far})"))
        if not l_f <= F(got) <= h_f:
            out.append(("range", f"checkLimitsTol{desc} returned {got!r} outside the range"))
        got = plot_utils.constrainLimits(value, low, high)
        if F(got) != want:
            out.append(("constrainLimits", f"constrainLimits{desc} = {got!r}, expected "
                        f"{float(want)!r}"))
    except Exception as exc:                # pylint: disable=broad-except
        out.append(("raise", f"limit helpers on {desc} tol {tol!r} raised {exc!r}"))
    return out


def check_point(point, bounds, tol):
    plot_utils = _lib()
    (x_lo, y_lo), (x_hi, y_hi) = bounds
    try:
        # an earlier request with equal-looking numbers of the other kind (floats for ints, ints
        # for whole floats), bounds and tolerance alike, the point at one corner
        plot_utils.point_in_bounds([twin(x_hi), twin(y_lo)],
                                   [[twin(x_lo), twin(y_lo)], [twin(x_hi), twin(y_hi)]], twin(tol))
    except Exception:                       # pylint: disable=broad-except
        pass
    try:
        got = plot_utils.point_in_bounds(list(point), [[x_lo, y_lo], [x_hi, y_hi]], tol)
        # the caller keeps one bounds object and edits it in place when the travel limits
        # change: the answer must follow the object's contents at the time of the call
        kept = [[x_lo + 4096, y_lo - 4096], [x_hi + 4096, y_hi - 4096]]
        plot_utils.point_in_bounds(list(point), kept, tol)
        kept[0][0], kept[0][1] = x_lo, y_lo
        kept[1] = [x_hi, y_hi]
        got_kept = plot_utils.point_in_bounds(list(point), kept, tol)
        _v, flag_x = plot_utils.checkLimitsTol(point[0], x_lo, x_hi, tol)
        _v, flag_y = plot_utils.checkLimitsTol(point[1], y_lo, y_hi, tol)
    except Exception as exc:                # pylint: disable=broad-except
        return [("raise2d", f"point_in_bounds({point}, {bounds}, {tol}) raised {exc!r}")]
    t_f = F(tol)
    exact = not (F(point[0]) < F(x_lo) - t_f or F(point[0]) > F(x_hi) + t_f or
                 F(point[1]) < F(y_lo) - t_f or F(point[1]) > F(y_hi) + t_f)
    out = []
    if got is not exact:
        out.append(("point_in_bounds", f"point_in_bounds({point}, {bounds}, {tol}) = {got!r}, "
                    f"expected {exact}"))
    if got_kept is not exact:
        out.append(("kept_bounds", f"point_in_bounds({point}, <one bounds object, first "
                    f"{[[x_lo + 4096, y_lo - 4096], [x_hi + 4096, y_hi - 4096]]}, then edited in "
                    f"place to {bounds}>, {tol}) = {got_kept!r}, expected {exact}"))
    if got is not (not flag_x and not flag_y):
        out.append(("agree", f"point_in_bounds({point}, {bounds}, {tol}) = {got!r} but the "
                    f"tolerant checker flags x:{flag_x} y:{flag_y}"))
    return out


def alphabet(ctx):
    vals = list(BASE)
    if ctx.thorough:
        vals += [-3, -0.25, 0.25, 0.75, 2.5, 1024, -1024.5, 300.25, -17.75, 2.0 ** -10, 65535.5,
                 float(1 << 20), -float(1 << 20) - 0.5]
    extra = core.seeded_ints(ctx.seed, "c18.v", 2, 6)
    vals += [v / 8 for v in extra]
    return sorted(set(vals))


def _scalar_chunk(args):
    ranges, vals = args[:2]
    tols = TOLS + list(args[2]) if len(args) > 2 else TOLS
    part = core.Part()
    for low, high in ranges:
        probes = set(vals)
        for tol in tols:
            probes |= {low - tol, low + tol, high - tol, high + tol,
                       low - tol - 0.125, high + tol + 0.125}
        # a hair's breadth on either side of every decision threshold (the thresholds are
        # exact floats because the alphabet is dyadic; the probes are just some nearby floats)
        for edge in sorted({low - tol for tol in tols} | {high + tol for tol in tols} |
                           {low, high}):
            probes |= {math.nextafter(edge, -math.inf), math.nextafter(edge, math.inf)}
            for tiny in (TINY / 2, TINY * 2, 1e-17, 1e-12, 1e-10, 1e-9, 3e-9, 1e-6):
                probes |= {edge - tiny, edge + tiny}
        for value in sorted(probes):
            for tol in tols:
                variants = [(value, low, high, tol)]
                if all(float(v).is_integer() for v in (value, low, high)):
                    variants.append((int(value), int(low), int(high), tol))
                    variants.append((int(value), float(low), int(high), int(tol)
                                     if float(tol).is_integer() else tol))
                for case in variants:
                    bad = check_scalar(*case)
                    part.count("scalar_cases")
                    if F(case[0]) < F(case[1]) or F(case[0]) > F(case[2]) or \
                            F(case[0]) in (F(case[1]), F(case[2])):
                        part.count("nontrivial")    # on a bound or outside the range
                    for clause, msg in bad:
                        part.violation(f"{clause}:{case!r}", msg,
                                       {"kind": "scalar", "case": list(case)})
    if ranges:
        part.sample({"range": list(ranges[0]), "values": vals[:6], "tolerances": tols}, limit=1)
    return part


def _point_chunk(args):
    rects, vals = args
    part = core.Part()
    # and coordinates inside / outside a band of width TINY around a bound of 0
    vals = list(vals) + [-TINY / 2, TINY / 2, -TINY * 2, TINY * 2]
    pts = list(itertools.product(vals, vals))
    for rect in rects:
        for point in pts:
            for tol in (0, 0.125, 1, 1e-9, TINY):
                for clause, msg in check_point(point, rect, tol):
                    part.violation(f"{clause}:{point}:{rect}:{tol}", msg,
                                   {"kind": "point", "point": list(point),
                                    "rect": [list(rect[0]), list(rect[1])], "tol": tol})
                part.count("point_cases")
    return part


def _dispatch(job):
    return _scalar_chunk(job[1]) if job[0] == "scalar" else _point_chunk(job[1])


def run(ctx):
    vals = alphabet(ctx)
    ranges = [(lo, hi) for lo in vals for hi in vals if lo <= hi]
    more_tols = [2.0 ** -20, 1024] if ctx.thorough else []     # bound +- tolerance stays exact
    jobs = [("scalar", (chunk, vals, more_tols)) for chunk in core.split(ranges, 32)]
    few = [-1, 0, 0.5, 2] if not ctx.thorough else [-1024.5, -1, 0, 0.5, 2, float(1 << 20)]
    rects = [((x0, y0), (x1, y1)) for x0 in few for x1 in few if x0 <= x1
             for y0 in few for y1 in few if y0 <= y1]
    jobs += [("point", (chunk, vals)) for chunk in core.split(rects, 32)]
    part = core.fan_out(ctx, _dispatch, jobs)
    # whole numbers too large for a double to hold exactly (step counts, 64-bit ticks): Python
    # compares ints exactly, so must the helpers - no detour through float()
    big = [(1 << 53) + k for k in (-1, 0, 1, 2, 3, 4)] + [10 ** 17 + k for k in (0, 1, 2, 3)]
    for low in big:
        for high in (h for h in big if h >= low):
            for value in big:
                for tol in (0, 1):
                    for clause, msg in check_scalar(value, low, high, tol):
                        part.violation(f"{clause}:big:{value}:{low}:{high}:{tol}", msg,
                                       {"kind": "scalar", "case": [value, low, high, tol]})
                    part.count("scalar_cases")
                    part.count("big_int_cases")
    for x_lo, x_hi, y_lo, y_hi in itertools.product(big[1:5], big[2:6], big[:2], big[3:5]):
        if x_lo > x_hi:
            continue
        for point in itertools.product(big[:6], big[:6]):
            for tol in (0, 1):
                for clause, msg in check_point(point, ((x_lo, y_lo), (x_hi, y_hi)), tol):
                    part.violation(f"{clause}:big:{point}:{x_lo}:{x_hi}:{y_lo}:{y_hi}:{tol}", msg,
                                   {"kind": "point", "point": list(point),
                                    "rect": [[x_lo, y_lo], [x_hi, y_hi]], "tol": tol})
                part.count("point_cases")
                part.count("big_int_cases")
    # the same whole numbers with a *float* tolerance (the default tolerance of point_in_bounds is
    # the float 1e-9): `bound + tolerance` is then formed in floating point, where a bound
    # beyond 2^53 has no exact image.  Violations that have this cause - and only those - carry
    # one canonical key (a listed known finding, see KNOWN_FINDINGS.txt / DESIGN.md section 5).
    def rounds(bounds, tol):
        return any(isinstance(b, int) and not isinstance(b, bool) and abs(b) > (1 << 53) and
                   (F(b + tol) != F(b) + F(tol) or F(b - tol) != F(b) - F(tol)) for b in bounds)

    for tol in (1.0, 0.5, 1e-9):
        for low, high in ((0, big[2]), (big[1], big[2]), (big[2], big[2]), (big[0], big[4]),
                          (big[6], big[7]), (-big[2], big[3])):
            for value in big + [-b for b in big[:4]] + [0]:
                for clause, msg in check_scalar(value, low, high, tol):
                    key = KNOWN_ROUNDING if rounds((low, high), tol) else \
                        f"{clause}:bigf:{value}:{low}:{high}:{tol}"
                    part.violation(key, msg, {"kind": "scalar", "case": [value, low, high, tol]})
                part.count("scalar_cases")
                part.count("big_int_float_tolerance_cases")
                for y_val in (0, big[2]):
                    rect = ((low, 0), (high, big[2]))
                    for clause, msg in check_point((value, y_val), rect, tol):
                        key = KNOWN_ROUNDING if rounds((low, high, 0, big[2]), tol) else \
                            f"{clause}:bigf:{value}:{y_val}:{low}:{high}:{tol}"
                        part.violation(key, msg, {"kind": "point", "point": [value, y_val],
                                                  "rect": [list(rect[0]), list(rect[1])],
                                                  "tol": tol})
                    part.count("point_cases")
                    part.count("big_int_float_tolerance_cases")
    # infinite values and bounds (an unlimited axis): legal for any lower <= upper, compared
    # exactly by the language; expectations straight from the statement, no rationals needed
    inf = math.inf
    plot_utils = _lib()
    big = 1.5e308                       # finite, but the sum of two of them is not
    for low, high in ((0, 10), (-inf, 0), (0, inf), (-inf, inf), (5, 5), (inf, inf), (-inf, -inf),
                      (big, big), (-big, -big), (-big, big), (1.0e308, big), (0, big)):
        for value in (-inf, -1, 0, 5, 10, 11, inf, 1.7e308, -1.7e308, big, -big, 1.2e308):
            want = low if value < low else (high if value > high else value)
            outside = value < low or value > high
            for tol in (0, 0.5):
                far = value < low - tol or value > high + tol
                try:
                    got = [plot_utils.checkLimits(value, low, high),
                           plot_utils.checkLimitsTol(value, low, high, tol),
                           plot_utils.constrainLimits(value, low, high),
                           plot_utils.point_in_bounds([value, 1], [[low, 0], [high, 2]], tol)]
                except Exception as exc:    # pylint: disable=broad-except
                    got = repr(exc)
                expect = [(want, outside), (want, far), want, not far]
                if got != expect and not (isinstance(got, list) and
                                          [tuple(g) if isinstance(g, (list, tuple)) else g for g in got]
                                          == expect):
                    part.violation(f"infinite:{value}:{low}:{high}:{tol}",
                                   f"value={value!r} lower={low!r} upper={high!r} tolerance={tol!r}: "
                                   f"[checkLimits, checkLimitsTol, constrainLimits, point_in_bounds] "
                                   f"= {got!r}, expected {expect!r}",
                                   {"kind": "infinite", "case": [repr(value), repr(low), repr(high), tol]})
                part.count("scalar_cases")
                part.count("infinite_cases")
    from .. import callforms              # pylint: disable=import-outside-toplevel
    part.merge(callforms.explore("C18"))
    cnt = part.counters
    total = cnt.get("scalar_cases", 0) + cnt.get("point_cases", 0)
    coverage = {
        "states": total,
        "transitions": total,
        "traces_validated_against_impl": total,
        "evaluations": total,
        "distinct_nontrivial": cnt.get("nontrivial", 0),
        "rule": "all ranges lower<=upper over a dyadic alphabet x (alphabet values + bound +- "
                "tolerance + one quantum beyond + the neighbouring floats and 1e-12..1e-6 either side "
                "of every threshold) x 4 (thorough 6) tolerances, as floats, ints and mixed; all "
                "lattice points x 100 (thorough 441) rectangles x 4 tolerances for the 2-D test, "
                "each also through a bounds object kept and edited in place; non-trivial = "
                "value on a bound or outside the range",
        "samples": core.rotate(part.samples, ctx.seed, 4),
        "scalar_cases": cnt.get("scalar_cases", 0),
        "point_cases": cnt.get("point_cases", 0),
        "exhaustive": True,
    }
    coverage["rule"] += ("; each call preceded by the same request in numbers of the other kind that compare equal "
                         "(3 / 3.0, 2^53 + 2 / its float); points outside a bound by 0.85 .. 1.2 tolerances and "
                         "PX_PER_INCH changed beforehand among the call forms")
    return {"part": part, "coverage": coverage,
            "assumptions": ["dyadic alphabet: bound +- tolerance is exact in floating point, except in the family of int bounds beyond 2^53 with float tolerances (known finding K2)"]}


def replay(case):
    if case.get("kind") == "callform":
        from .. import callforms          # pylint: disable=import-outside-toplevel
        return callforms.replay(case)
    if case["kind"] == "infinite":
        return _replay_infinite(case["case"])
    if case["kind"] == "scalar":
        return [m for _c, m in check_scalar(*case["case"])]
    rect = (tuple(case["rect"][0]), tuple(case["rect"][1]))
    return [m for _c, m in check_point(tuple(case["point"]), rect, case["tol"])]


def _replay_infinite(case):
    def conv(text):
        try:
            return int(text)
        except ValueError:
            return float(text)
    value, low, high = (conv(c) for c in case[:3])
    tol = case[3]
    plot_utils = _lib()
    want = low if value < low else (high if value > high else value)
    outside = value < low or value > high
    far = value < low - tol or value > high + tol
    try:
        got = [tuple(plot_utils.checkLimits(value, low, high)),
               tuple(plot_utils.checkLimitsTol(value, low, high, tol)),
               plot_utils.constrainLimits(value, low, high),
               plot_utils.point_in_bounds([value, 1], [[low, 0], [high, 2]], tol)]
    except Exception as exc:                # pylint: disable=broad-except
        return [f"raised {exc!r}"]
    expect = [(want, outside), (want, far), want, not far]
    return [] if got == expect else [f"value={value!r} lower={low!r} upper={high!r} tolerance="
                                     f"{tol!r}: {got!r}, expected {expect!r}"]
