"""C06 - motion/configuration helpers emit exactly the documented EBB command text.

Every helper of the function-style legacy layer (ebb_motion) and of the EBB3 class layer
(ebb3_motion / ebb3_serial) is called over an argument lattice against a fake port that
acknowledges everything; the bytes handed to write() are compared with a table of the
documented command formats written from the EBB command reference.  Helpers are discovered
by introspection: a public helper with no table entry is reported, not skipped.
"""
import inspect
import itertools
import sys

from .. import core
from ..ebb3drv import new_object, request_methods
from ..fakeserial import EBB3Board, FakePort, LegacyBoard, MODE_TO_QE, Profile, QUIET

PROPERTY = "C06"

INTS = [-(1 << 31), -751, -750, -1, 0, 1, 2, 5, 6, 7, 749, 750, 751, 1500, 1501, 65535,
        (1 << 31) - 1]
SMALL = [-1, 0, 1, 7]
OPT = [None, 0, 1, 3]
RES = list(range(-2, 9))
PAUSES = list(range(-3, 4001)) + [10 ** 5, 10 ** 6 + 1]


def clamp(res):
    return min(max(int(res), 0), 5)


def _opt_tail(*values):
    return "".join(f",{v}" for v in values)


# ---- documented formats: helper -> (argument lattice, expected command list) ---------------
# expected() returns the list of request texts (no CR) or None for "pause oracle".

def lm_expected(rate1, steps1, accel1, rate2, steps2, accel2, clear=None):
    still1 = (rate1 == 0 and accel1 == 0) or steps1 == 0
    still2 = (rate2 == 0 and accel2 == 0) or steps2 == 0
    if still1 and still2:
        return []
    text = f"LM,{rate1},{steps1},{accel1},{rate2},{steps2},{accel2}"
    if clear is not None:
        text += f",{clear}"
    return [text]


def hm_expected(rate, pos1=None, pos2=None):
    if pos1 is not None and pos2 is not None:
        return [f"HM,{rate},{pos1},{pos2}"]
    return [f"HM,{rate}"]


def sp_expected(updown):
    def expected(delay, pin=None):
        return [f"SP,{updown},{delay}" + ("" if pin is None else f",{pin}")]
    return expected


def sr_expected(timeout_ms, state=None):
    return [f"SR,{timeout_ms}" + ("" if state is None else f",{state}")]


def grid(*axes):
    return list(itertools.product(*axes))


def opt_grid(required_axes, optional_axes):
    """Required arguments x every prefix of optional arguments (absent = not passed)."""
    out = []
    for req in itertools.product(*required_axes):
        out.append(req)
        for n_opt in range(1, len(optional_axes) + 1):
            for opt in itertools.product(*optional_axes[:n_opt]):
                out.append(req + opt)
    return out


def singled_out():
    """Numbers the motion and serial modules single out in their own source (literals and
    constant expressions such as 60 * 1000): a helper that treats one value specially names it."""
    import sys as _sys                      # pylint: disable=import-outside-toplevel
    _libs()
    vals = set()
    for name in ("plotink.ebb_motion", "plotink.ebb3_motion", "plotink.ebb_serial",
                 "plotink.ebb3_serial"):
        mod = _sys.modules.get(name)
        if mod is None:
            try:
                mod = __import__(name, fromlist=["x"])
            except ImportError:
                continue
        vals |= set(core.harvest_ints(mod, low=8, high=(1 << 31) - 1))
    # ... and the power-up defaults and limits the EBB firmware documentation gives for the
    # settings these helpers change (SR 60000 ms, SC,4/SC,5 12000/16000, SC,10 400, servo range
    # 9855..27831, 25000 steps/s, 24000 servo ticks per ms): "already at its default" is the
    # natural excuse for a helper to skip a transmission
    vals |= {60000, 12000, 16000, 400, 9855, 27831, 25000, 24000}
    return sorted(vals - set(INTS))


_INT_HELPERS = {"doABMove", "doXYMove", "doAbsMove", "sendPenDown", "sendPenUp", "PBOutConfig",
                "PBOutValue", "setPenDownPos", "setPenDownRate", "setPenUpPos", "setPenUpRate",
                "setEBBLV", "servo_timeout", "xy_move", "abs_move", "pen_lower", "pen_raise",
                "dio_b_config", "dio_b_set", "dio_b_read", "pen_pos_down", "pen_pos_up",
                "pen_rate_down", "pen_rate_up"}


def _single_out(table):
    """Each argument of each integer-argument helper in turn at each singled-out number (and its
    negative), the other arguments ordinary, for every arity the helper accepts."""
    extra = singled_out()
    for name, (args_list, expected) in list(table.items()):
        if name not in _INT_HELPERS or not args_list:
            continue
        arities = sorted({len(a) for a in args_list if a})
        more = []
        for arity in arities:
            for base in ((1,) * arity, (7, 0, 2)[:arity] + (3,) * max(0, arity - 3)):
                for pos in range(arity):
                    for val in extra:
                        for signed in (val, -val):
                            more.append(base[:pos] + (signed,) + base[pos + 1:])
        seen = set(args_list)
        table[name] = (list(args_list) + [a for a in dict.fromkeys(more) if a not in seen],
                       expected)
    return table


def legacy_table(ctx):
    return _single_out(_legacy_table(ctx))


def ebb3_table(ctx):
    return _single_out(_ebb3_table(ctx))


def _legacy_table(ctx):
    ints3 = grid(INTS, INTS, INTS)
    lm_axes = [SMALL] * 6
    lm_args = [a + (c,) for a in itertools.product(*lm_axes) for c in OPT]
    lm_args += list(itertools.product(*lm_axes))
    # each argument in turn at the ends of the signed 32-bit range (and one inside them), the
    # others ordinary: the one value a symmetric clamp or an abs() gets wrong is -2^31
    for pos in range(6):
        for edge in (-(1 << 31), -(1 << 31) + 1, (1 << 31) - 2, (1 << 31) - 1):
            for base in ((1, 1, 1, 1, 1, 1), (7, -1, 0, 0, 7, 1)):
                args = base[:pos] + (edge,) + base[pos + 1:]
                lm_args += [args, args + (None,), args + (1,)]
    # LM commands of exactly 62..66 characters with their CR, and of every length that appears
    # as a number in ebb_motion's / ebb_serial's own source (a packet size, a buffer length)
    wanted = {62, 63, 64, 65, 66}
    for mod in (_libs(), sys.modules.get("plotink.ebb_serial")):
        if mod is not None:
            wanted |= {c for c in core.harvest_ints(mod, low=20, high=75)}
    digits = "1234567890" * 2
    for total in sorted(wanted):
        room = total - len("LM,") - 5 - 1          # five commas between six arguments, one CR
        for with_clear in (False, True):
            width = room - (2 if with_clear else 0)
            if not 6 <= width <= 60:
                continue
            sizes = [width // 6 + (1 if k < width % 6 else 0) for k in range(6)]
            if max(sizes) > 10:
                continue
            vals = []
            for k, size in enumerate(sizes):
                if k % 2 and size >= 2:
                    vals.append(-int(digits[:size - 1]))
                else:
                    vals.append(int(digits[:size]))
            if all(abs(v) < (1 << 31) for v in vals):
                lm_args.append(tuple(vals) + ((3,) if with_clear else ()))
    if ctx.thorough:
        wide = [-(1 << 31), 0, 1, (1 << 31) - 1]
        lm_args += [a + (c,) for a in itertools.product(*([wide] * 6)) for c in (None, 0, 2)]
    return {
        "doABMove": (ints3, lambda a, b, dur: [f"XM,{dur},{a},{b}"]),
        "doXYMove": (ints3, lambda dx, dy, dur: [f"SM,{dur},{dy},{dx}"]),
        "doTimedPause": ([(n,) for n in PAUSES], None),
        "doLowLevelMove": (lm_args, lm_expected),
        "doAbsMove": (opt_grid([INTS], [[None] + INTS, [None] + INTS]), hm_expected),
        "QueryPenUp": ([()], lambda: ["QP"]),
        "QueryPRGButton": ([()], lambda: ["QB"]),
        "sendDisableMotors": ([()], lambda: ["EM,0,0"]),
        "sendEnableMotors": ([(r,) for r in RES + INTS], lambda r: [f"EM,{clamp(r)},{clamp(r)}"]),
        "query_enable_motors": ([()], lambda: ["PI,E,0", "PI,C,1", "PI,E,2", "PI,E,1", "PI,A,6"]),
        "query_steps": ([()], lambda: ["QS"]),
        "sendPenDown": (opt_grid([INTS], [[None] + INTS]), sp_expected(0)),
        "sendPenUp": (opt_grid([INTS], [[None] + INTS]), sp_expected(1)),
        "PBOutConfig": (grid(INTS, INTS), lambda pin, st: [f"PO,B,{pin},{st}", f"PD,B,{pin},0"]),
        "PBOutValue": (grid(INTS, INTS), lambda pin, st: [f"PO,B,{pin},{st}"]),
        "TogglePen": ([()], lambda: ["TP"]),
        "setPenDownPos": ([(v,) for v in INTS], lambda v: [f"SC,5,{v}"]),
        "setPenDownRate": ([(v,) for v in INTS], lambda v: [f"SC,12,{v}"]),
        "setPenUpPos": ([(v,) for v in INTS], lambda v: [f"SC,4,{v}"]),
        "setPenUpRate": ([(v,) for v in INTS], lambda v: [f"SC,11,{v}"]),
        "setEBBLV": ([(v,) for v in INTS], lambda v: [f"SL,{v}"]),
        "queryEBBLV": ([()], lambda: ["QL"]),
        "queryVoltage": ([()], lambda: ["V", "QC"]),
        "servo_timeout": (opt_grid([INTS], [[None] + INTS]),
                          lambda ms, st=None: ["V"] + sr_expected(ms, st)),
    }


LEGACY_NOT_HELPERS = {"version", "moveDistLM", "moveDistLMA", "moveTimeLM"}    # pure calculators


def _ebb3_table(_ctx):
    ints3 = grid(INTS, INTS, INTS)
    return {
        "timed_pause": ([(n,) for n in PAUSES], None),
        "xy_move": (ints3, lambda dx, dy, dur: [f"SM,{dur},{dy},{dx}"]),
        "abs_move": (opt_grid([INTS], [[None] + INTS, [None] + INTS]), hm_expected),
        "motors_disable": ([()], lambda: ["EM,0,0"]),
        "motors_enable": (None, None),                      # state dependent, see _motors_enable
        "motors_query_enabled": ([()], lambda: ["QE"]),
        "query_steps": ([()], lambda: ["QS"]),
        "clear_steps": ([()], lambda: ["CS"]),
        "clear_accumulators": ([()], lambda: ["T3,1,0,0,0,0,0,0,3"]),
        "pen_lower": (opt_grid([INTS], [[None] + INTS]), sp_expected(0)),
        "pen_raise": (opt_grid([INTS], [[None] + INTS]), sp_expected(1)),
        "dio_b_config": (ints3, lambda pin, st, d: [f"PO,B,{pin},{st}", f"PD,B,{pin},{d}"]),
        "dio_b_set": (grid(INTS, INTS), lambda pin, st: [f"PO,B,{pin},{st}"]),
        "dio_b_read": ([(v,) for v in INTS], lambda pin: [f"PI,B,{pin}"]),
        "pen_pos_down": ([(v,) for v in INTS], lambda v: [f"SC,5,{v}"]),
        "pen_pos_up": ([(v,) for v in INTS], lambda v: [f"SC,4,{v}"]),
        "pen_rate_down": ([(v,) for v in INTS], lambda v: [f"SC,12,{v}"]),
        "pen_rate_up": ([(v,) for v in INTS], lambda v: [f"SC,11,{v}"]),
        "servo_timeout": (opt_grid([INTS], [[None] + INTS]), sr_expected),
        "query_voltage": ([(), (None,), (0,), (250,), (1000,)], lambda thr=None: ["QC"]),
        "query_current": ([()], lambda: ["QC"]),
        "var_write": (grid([0, 1, 127, 128, 255], [0, 1, 15, 31]), lambda v, i: [f"SL,{v},{i}"]),
        "var_read": ([(i,) for i in (0, 1, 15, 31)], lambda i: [f"QL,{i}"]),
        "var_write_int32": ([(v, s) for v in (0, 1, -1, 258, -(1 << 31), (1 << 31) - 1)
                             for s in (0, 5, 28)],
                            lambda v, s: [f"SL,{b},{s + k}" for k, b in
                                          enumerate(v.to_bytes(4, "big", signed=True))]),
        "var_read_int32": ([(s,) for s in (0, 5, 28)], lambda s: [f"QL,{s + k}" for k in range(4)]),
        "query_nickname": ([()], lambda: ["QT"]),
        "write_nickname": ([("Axi",), ("a b",), ("",)], lambda n: [f"ST,{n.strip()}"]),
        "query_statusbyte": ([()], lambda: ["QG"]),
        "reboot": ([()], lambda: ["RB"]),
        "bootload": ([()], lambda: ["BL"]),
        "command": ([("SM,10,1,1",), (" V ",)], lambda c: [c.strip()]),
        "query": ([("QM",), ("QL,3\r",)], lambda q: [q.strip()]),
    }


# pairs of helpers that exist in both layers: (legacy, ebb3, legacy args -> ebb3 args)
CROSS = [
    ("doTimedPause", "timed_pause", lambda a: a),
    ("doXYMove", "xy_move", lambda a: a),
    ("doAbsMove", "abs_move", lambda a: a),
    ("sendDisableMotors", "motors_disable", lambda a: a),
    ("sendEnableMotors", "motors_enable", lambda a: (a[0], a[0])),
    ("query_steps", "query_steps", lambda a: a),
    ("sendPenDown", "pen_lower", lambda a: a),
    ("sendPenUp", "pen_raise", lambda a: a),
    ("PBOutConfig", "dio_b_config", lambda a: a + (0,)),
    ("PBOutValue", "dio_b_set", lambda a: a),
    ("setPenDownPos", "pen_pos_down", lambda a: a),
    ("setPenUpPos", "pen_pos_up", lambda a: a),
    ("setPenDownRate", "pen_rate_down", lambda a: a),
    ("setPenUpRate", "pen_rate_up", lambda a: a),
    ("servo_timeout", "servo_timeout", lambda a: a),
    ("queryVoltage", "query_voltage", lambda a: a),
]


def _libs():
    from plotink import ebb_motion          # pylint: disable=import-outside-toplevel
    return ebb_motion


def legacy_helpers():
    mod = _libs()
    names = []
    for name, obj in sorted(vars(mod).items()):
        if name.startswith("_") or not inspect.isfunction(obj) or obj.__module__ != mod.__name__:
            continue
        if name in LEGACY_NOT_HELPERS:
            continue
        names.append(name)
    return names


# helpers that expand into several independent commands whose mutual order nothing documents
# (a behaviour-preserving refactor that wrote the four bytes of an int32 from the highest slot
# down made this check raise a false alarm - see DESIGN.md section 8)
UNORDERED = ("var_write_int32", "var_read_int32")


class _Stall:                                       # pylint: disable=too-few-public-methods
    """Chooser that delays every reply line by the same number of empty reads (option index)
    and answers the default everywhere else - a slow board, nothing exhaustive about it."""

    def __init__(self, option):
        self.option = option
        self.trace = []

    def choose(self, label, arity):
        return self.option if (".l" in label and self.option < arity) else 0


STALL_PROFILE = Profile(latency=(0, 1, 3, 24))
STALL_BUDGET = 12                   # slow-board repeats per (layer, helper) and chunk
_STALLED = {}


def sent_legacy(helper, args, verbose=True, with_port=True, stall=0):
    """Call a legacy helper; return (list of request texts, raw writes, exception)."""
    core.quiet_legacy_logger()
    mod = _libs()
    port = None
    if with_port:
        port = FakePort(LegacyBoard(version="2.8.1"), _Stall(stall) if stall else None,
                        STALL_PROFILE if stall else QUIET)
    func = getattr(mod, helper)
    kwargs = {}
    if "verbose" in inspect.signature(func).parameters:
        kwargs["verbose"] = verbose
    exc = None
    try:
        func(port, *args, **kwargs)
    except Exception as err:                # pylint: disable=broad-except
        exc = err
    raw = port.write_attempts if port else []
    return raw, exc


def sent_ebb3(method, args, motor_state=None, connected=True, stall=0, version="3.0.2"):
    board = EBB3Board(version=version, future=True, nickname="Axi")
    if motor_state is not None:
        board.set_motor_state(*motor_state)
    obj, port, _board = new_object(_Stall(stall) if stall else None,
                                   STALL_PROFILE if stall else QUIET, board=board,
                                   connected=connected)
    exc = None
    try:
        getattr(obj, method)(*args)
    except Exception as err:                # pylint: disable=broad-except
        exc = err
    return port.write_attempts, exc, obj


def texts(raw):
    """Decode raw writes; each must be exactly one request terminated by one CR."""
    out = []
    for item in raw:
        text = item.decode("ascii", "replace")
        if not text.endswith("\r") or "\r" in text[:-1]:
            return None
        out.append(text[:-1])
    return out


def pause_ok(reqs, pause):
    """Zero-move commands whose durations each lie in 1..750 and sum to n (none for n<=0)."""
    if pause <= 0:
        return reqs == []
    total = 0
    for req in reqs:
        parts = req.split(",")
        if len(parts) != 4 or parts[0] != "SM" or parts[2:] != ["0", "0"]:
            return False
        if not parts[1].isdigit() or not 1 <= int(parts[1]) <= 750:
            return False
        total += int(parts[1])
    return total == pause


def dropped_zero_key(layer, helper, args, want, got):
    """Canonical key: which argument position was dropped (so a finding lists one call site)."""
    if want and got and len(want) == len(got) == 1 and want[0].startswith(got[0] + ","):
        tail = want[0][len(got[0]):]
        if set(tail) <= set(",0"):
            names = {"doLowLevelMove": "clear", "doAbsMove": "position", "abs_move": "position",
                     "sendPenDown": "pin", "sendPenUp": "pin", "pen_lower": "pin",
                     "pen_raise": "pin"}
            return f"{helper}/{names.get(helper, 'arg')}=0"
    return None


def check_case(layer, helper, args, expected_fn, motor_state=None):
    """Returns list of (key, msg)."""
    if layer == "legacy":
        raw, exc = sent_legacy(helper, args)
    else:
        raw, exc, _obj = sent_ebb3(helper, args, motor_state)
    desc = f"{layer}.{helper}{tuple(args)!r}"
    if exc is not None:
        return [(f"raise:{layer}.{helper}", f"{desc} raised {type(exc).__name__}: {exc}")]
    got = texts(raw)
    if got is None:
        return [(f"framing:{layer}.{helper}", f"{desc} wrote {raw!r}: not one CR-terminated "
                 f"request per write")]
    if expected_fn is None:
        if not pause_ok(got, args[0]):
            return [(f"pause:{layer}.{helper}", f"{desc} sent {got[:4]}...({len(got)} commands): "
                     f"durations must each lie in 1..750 and sum to {args[0]}")]
        return []
    want = expected_fn(*args)
    if helper in UNORDERED and sorted(got) == sorted(want):
        got = want                      # the order of the four slot accesses is not documented
    if got != want:
        key = dropped_zero_key(layer, helper, args, want, got) or f"text:{layer}.{helper}"
        return [(key, f"{desc} sent {got!r}; the documented command is {want!r}")]
    if layer == "ebb3":
        # the documented text does not depend on *which* supported firmware the board reported
        # when it was connected (the object remembers the version; no helper should consult it)
        seen = _VERSIONED.get(helper, 0)
        if helper == "motors_enable" or seen < STALL_BUDGET:
            _VERSIONED[helper] = seen + 1
            for version in ("3.0.3", "3.2.0", "10.1.0"):
                raw_v, exc_v, _o = sent_ebb3(helper, args, motor_state, version=version)
                if exc_v is not None or raw_v != raw:
                    return [(f"firmware:{layer}.{helper}", f"{desc} on a board that reported "
                             f"firmware {version} sent {texts(raw_v)!r} (exception {exc_v!r}); "
                             f"on a 3.0.2 board {texts(raw)!r}")]
    return slow_board_case(layer, helper, args, motor_state, raw, desc)


_VERSIONED = {}


def slow_board_case(layer, helper, args, motor_state, prompt_raw, desc):
    """The same call against a board that answers after 1 and after 3 empty reads must put
    exactly the same bytes on the wire ("... and nothing else")."""
    seen = _STALLED.get((layer, helper), 0)
    if seen >= STALL_BUDGET:
        return []
    _STALLED[(layer, helper)] = seen + 1
    for stall in (1, 2):                # option index: 1 -> one empty read, 2 -> three
        if layer == "legacy":
            raw, exc = sent_legacy(helper, args, stall=stall)
        else:
            raw, exc, _obj = sent_ebb3(helper, args, motor_state, stall=stall)
        if exc is not None or raw != prompt_raw:
            return [(f"slow:{layer}.{helper}", f"{desc} against a board that answers after "
                     f"{(0, 1, 3)[stall]} empty read(s) sent {texts(raw)!r} (exception {exc!r}); "
                     f"against a prompt board it sent {texts(prompt_raw)!r}")]
    # ... and so must the same call while the application logs at DEBUG level
    with core.debug_logging():
        if layer == "legacy":
            raw, exc = sent_legacy(helper, args)
        else:
            raw, exc, _obj = sent_ebb3(helper, args, motor_state)
    if exc is not None or raw != prompt_raw:
        return [(f"debuglog:{layer}.{helper}", f"{desc} with logging switched to DEBUG put "
                 f"{[bytes(r) for r in raw]!r} on the wire (exception {exc!r}); otherwise "
                 f"{[bytes(r) for r in prompt_raw]!r}")]
    return []


SESSION = [("pen_raise", (100,)), ("timed_pause", (800,)), ("xy_move", (10, -20, 30)),
           ("pen_lower", (100,)), ("timed_pause", (5,)), ("query_steps", ()),
           ("xy_move", (-10, 20, 30))]
LEGACY_SESSION = [("sendPenUp", (100,)), ("doTimedPause", (800,)), ("doXYMove", (10, -20, 30)),
                  ("sendPenDown", (100,)), ("doTimedPause", (5,)), ("QueryPenUp", ()),
                  ("doXYMove", (-10, 20, 30))]


def slow_session(layer, stall, length):
    """One long-lived object / port, `length` helper calls in a row, against a board that
    answers every request after the same small number of empty reads: the allowance of empty
    reads is per request, however many requests went before (a plot is tens of thousands of
    them).  Must put exactly the bytes on the wire that the same session puts against a prompt
    board, raise nothing and (EBB3) record no error."""
    mod = _libs()
    runs = []
    for delay in (0, stall):
        chooser, profile = (_Stall(delay), STALL_PROFILE) if delay else (None, QUIET)
        exc = None
        if layer == "legacy":
            core.quiet_legacy_logger()
            port = FakePort(LegacyBoard(version="2.8.1"), chooser, profile)
            obj = None
        else:
            obj, port, _board = new_object(chooser, profile,
                                           board=EBB3Board(future=True, nickname="Axi"))
        done = 0
        from ..fakeserial import VirtualClock   # pylint: disable=import-outside-toplevel
        try:
            # the slow board is slow in time as well: every empty read blocks for 1.6 x the
            # port's timeout on a virtual clock (the allowance is counted in reads, not seconds)
            with VirtualClock() as clock:
                port.clock = clock if delay else None
                for k in range(length):
                    name, args = (LEGACY_SESSION if layer == "legacy" else SESSION)[k % 7]
                    if layer == "legacy":
                        getattr(mod, name)(port, *args)
                    else:
                        getattr(obj, name)(*args)
                    done += 1
        except Exception as err:            # pylint: disable=broad-except
            exc = err
        runs.append((list(port.write_attempts), exc, getattr(obj, "err", None), done))
    (raw_0, exc_0, err_0, _d0), (raw_1, exc_1, err_1, done_1) = runs
    if exc_0 is not None or err_0 is not None:
        return []                           # not this family's business (caught elsewhere)
    if exc_1 is not None or err_1 is not None or raw_1 != raw_0:
        first = next((i for i, (a, b) in enumerate(zip(raw_0, raw_1)) if a != b),
                     min(len(raw_0), len(raw_1)))
        return [f"{layer} session of {length} helper calls on one object against a board that "
                f"answers every request after {(0, 1, 3, 24)[stall]} empty read(s), each blocking for "
                f"1.6 x the port timeout: {len(raw_1)} "
                f"requests went out instead of {len(raw_0)} (first difference at request "
                f"{first}), exception {exc_1!r}, recorded error {err_1!r}, calls completed "
                f"{done_1}"]
    return []


def reconnect_session(how):
    """One EBB3 object used for two sessions: connect, a few helpers, then disconnect() /
    reboot() / bootload(), connect again (the operating system hands out a *new* port object),
    the same helpers again.  In the second session every byte must go to the new port, the old
    one must get nothing more, and the text must be what a fresh object would have sent."""
    from ..ebb3drv import connect_env, probe_class      # pylint: disable=import-outside-toplevel
    opened = []

    def factory(_name):
        port = FakePort(EBB3Board(future=False, nickname="Axi"))
        opened.append(port)
        return port

    def session(obj):
        for name, args in SESSION[:4]:
            getattr(obj, name)(*args)

    try:
        with connect_env(factory):
            fresh = probe_class()()
            fresh.connect()
            session(fresh)
            reference = list(opened[0].write_attempts)
            del opened[:]
            obj = probe_class()()
            first_ok = obj.connect()
            session(obj)
            getattr(obj, how)()
            old_count = len(opened[0].write_attempts)
            second_ok = obj.connect()
            session(obj)
    except Exception as exc:                # pylint: disable=broad-except
        return [f"EBB3 object reused after {how}(): raised {type(exc).__name__}: {exc}"]
    if len(opened) != 2:
        return [f"EBB3 object reused after {how}(): {len(opened)} ports were opened, expected 2"]
    late = opened[0].write_attempts[old_count:]
    got = list(opened[1].write_attempts)
    if first_ok is not True or second_ok is not True or obj.err is not None or late or \
            got != reference:
        return [f"EBB3 object reused after {how}(): second connect() = {second_ok!r}, err = "
                f"{obj.err!r}; the old (closed) port was handed {late!r}; the new port got "
                f"{got!r}, a fresh object's session is {reference!r}"]
    return []


def _case(layer, helper, args, motor_state=None):
    return {"kind": "text", "layer": layer, "helper": helper, "args": list(args),
            "motor_state": list(motor_state) if motor_state else None}


# ---- motors_enable: documented protocol from every board motor state -------------------------

def motors_enable_expected(res1, res2, state):
    motor1, motor2, mode = state
    r_1, r_2 = clamp(res1), clamp(res2)
    seq = []
    if r_1 != r_2 and r_1 * r_2 == 0:
        seq.append("CU,50,0")
    if r_1 == 0 and r_2 != 0:
        seq.append("QE")
        current = mode if (motor1 or motor2) else 0
        if current != r_2:
            seq.append(f"EM,{r_2},{r_2}")
    seq.append(f"EM,{r_1},{r_2}")
    return seq


MOTOR_STATES = [(m1, m2, mode) for m1 in (False, True) for m2 in (False, True)
                for mode in (1, 2, 3, 4, 5)]


def _chunk(args):
    layer, helper, arg_list = args
    part = core.Part()
    _STALLED.clear()                    # the slow-board budget is per chunk (deterministic)
    _VERSIONED.clear()
    table = legacy_table(_CTX) if layer == "legacy" else ebb3_table(_CTX)
    expected_fn = table[helper][1]
    for call_args in arg_list:
        if helper == "motors_enable":
            res1, res2, state = call_args
            bad = check_case(layer, helper, (res1, res2),
                             lambda a, b, st=state: motors_enable_expected(a, b, st), state)
            for key, msg in bad:
                part.violation(key, msg + f" (board motor state {state})",
                               _case(layer, helper, (res1, res2), state))
            part.count("cases")
            part.count("nontrivial")
            continue
        bad = check_case(layer, helper, call_args, expected_fn)
        for key, msg in bad:
            part.violation(key, msg, _case(layer, helper, call_args))
        part.count("cases")
        if any(a == 0 or a is None for a in call_args) or expected_fn is None:
            part.count("nontrivial")        # zero-valued / absent optional arguments, chunking
    part.sample({"layer": layer, "helper": helper, "args": list(arg_list[len(arg_list) // 2])},
                limit=1)
    return part


_CTX = None


def run(ctx):
    global _CTX                             # pylint: disable=global-statement
    _CTX = ctx
    part = core.Part()
    if ctx.thorough and 32768 not in INTS:
        # a wider argument alphabet (the tables below are built from INTS at call time)
        INTS.extend([-32768, -2, 3, 4, 8, 9, 10, 99, 100, 1000, 32767, 32768, 1 << 24])
        INTS.sort()
    ltab, etab = legacy_table(ctx), ebb3_table(ctx)
    # introspection: every helper must have a documented format in the table
    for name in legacy_helpers():
        if name not in ltab:
            part.violation(f"undocumented:legacy.{name}", f"legacy helper {name} has no documented "
                           f"command format in the table (new helper?)", {"kind": "table"})
    for name in request_methods():
        if name not in etab:
            part.violation(f"undocumented:ebb3.{name}", f"EBB3 method {name} has no documented "
                           f"command format in the table (new method?)", {"kind": "table"})
    jobs = []
    for helper, (arg_list, _fn) in ltab.items():
        if helper in legacy_helpers():
            for chunk in core.split(arg_list, 8):
                jobs.append(("legacy", helper, chunk))
    for helper, (arg_list, _fn) in etab.items():
        if helper == "motors_enable":
            arg_list = [(r1, r2, st) for r1 in RES for r2 in RES for st in MOTOR_STATES]
        if helper in request_methods():
            for chunk in core.split(arg_list, 8):
                jobs.append(("ebb3", helper, chunk))
    part.merge(core.fan_out(ctx, _chunk, jobs))
    for how in ("disconnect", "reboot", "bootload"):
        for msg in reconnect_session(how):
            part.violation(f"reconnect:{how}", msg, {"kind": "reconnect", "how": how})
        part.count("cases")
        part.count("reconnect_sessions")
    for layer in ("legacy", "ebb3"):
        for stall in (1, 2, 3):
            for length in ((30, 70) + ((400,) if ctx.thorough else ())) if stall < 3 else (9,):
                for msg in slow_session(layer, stall, length):
                    part.violation(f"slow_session:{layer}:{stall}:{length}", msg,
                                   {"kind": "slow_session", "layer": layer, "stall": stall,
                                    "length": length})
                part.count("cases")
                part.count("slow_sessions")
    # the two version-gated helpers of the legacy layer in a row on one port: what the first
    # learnt about the board must not decide whether the second transmits ("and nothing else")
    from .c15 import HISTORY_VERSIONS, check_gate_history   # pylint: disable=import-outside-toplevel
    for first, second in itertools.permutations(("servo_timeout", "queryVoltage"), 2):
        for ver in HISTORY_VERSIONS:
            for msg in check_gate_history("same", first, second, ver):
                part.violation(f"gated_pair:{first}:{second}:{ver}", msg,
                               {"kind": "gated_pair", "first": first, "second": second,
                                "version": ver})
            part.count("gated_pair_histories")
    _cross_and_noport(part, ltab, etab)
    cnt = part.counters
    coverage = {
        "states": cnt.get("cases", 0),
        "transitions": cnt.get("cases", 0) + cnt.get("cross_layer_cases", 0) +
        cnt.get("no_port_cases", 0),
        "traces_validated_against_impl": cnt.get("cases", 0),
        "evaluations": cnt.get("cases", 0) + cnt.get("cross_layer_cases", 0) +
        cnt.get("no_port_cases", 0),
        "distinct_nontrivial": cnt.get("nontrivial", 0),
        "rule": "every helper of both layers (introspected) x its full argument lattice (17-value "
                "integer alphabet, optional arguments absent/None/0/non-zero, resolutions -2..8 "
                "from all 20 board motor states, every pause n in -3..4000); non-trivial = calls "
                "with a zero-valued or absent optional argument, pause chunking cases and "
                "state-dependent motor-enable sequences; each (helper, args) distinct",
        "samples": core.rotate(part.samples, ctx.seed, 4),
        "legacy_helpers": legacy_helpers(),
        "ebb3_methods": request_methods(),
        "cross_layer_cases": cnt.get("cross_layer_cases", 0),
        "no_port_cases": cnt.get("no_port_cases", 0),
        "exhaustive": True,
    }
    assumptions = [
        "the first 12 calls of every chunk are repeated against a board that answers after 1 and 3 empty reads and must put the same bytes on the wire; documented formats taken from the EBB command reference and the helpers' docstrings; "
        "motors_enable protocol (CU,50,0 / QE / pre-set EM) as described in its docstring",
        "legacy layer talks to a firmware 2.8.1 board so that version-gated helpers transmit",
        "pause oracle is the statement's (durations in 1..750 summing to n), not a fixed chunking",
    ]
    coverage["rule"] += ("; every number singled out in the four motion / serial modules' source (constant expressions folded) and the documented firmware defaults, with both signs, in each integer argument of each integer-argument helper in turn")
    return {"part": part, "coverage": coverage, "assumptions": assumptions}


def _cross_and_noport(part, ltab, etab):
    lnames, enames = set(legacy_helpers()), set(request_methods())
    for lname, ename, conv in CROSS:
        if lname not in lnames or ename not in enames:
            continue
        arg_list = ltab[lname][0]
        step = max(1, len(arg_list) // 400)
        for args in arg_list[::step]:
            raw_l, exc_l = sent_legacy(lname, args, verbose=False)
            raw_e, exc_e, _o = sent_ebb3(ename, conv(args), motor_state=(True, True, 1))
            got_l, got_e = texts(raw_l), texts(raw_e)
            if got_l and got_l[0] == "V" and lname in ("servo_timeout", "queryVoltage"):
                got_l = got_l[1:]           # the legacy layer's own version probe
            part.count("cross_layer_cases")
            if exc_l or exc_e or got_l != got_e:
                key = dropped_zero_key("cross", lname, args, got_e, got_l) or \
                    dropped_zero_key("cross", ename, args, got_l, got_e) or f"cross:{lname}/{ename}"
                part.violation(key, f"layers disagree for {lname}{tuple(args)!r}: legacy sent "
                               f"{got_l!r} ({exc_l!r}), EBB3 sent {got_e!r} ({exc_e!r})",
                               {"kind": "cross", "legacy": lname, "ebb3": ename, "args": list(args)})
    for lname in sorted(lnames):
        if lname not in ltab:
            continue
        args = ltab[lname][0][len(ltab[lname][0]) // 2]
        raw, exc = sent_legacy(lname, args, with_port=False)
        part.count("no_port_cases")
        if exc is not None or raw:
            part.violation(f"noport:legacy.{lname}", f"legacy.{lname}(None, ...) raised {exc!r} / "
                           f"wrote {raw!r}", {"kind": "noport", "layer": "legacy", "helper": lname,
                                              "args": list(args)})
    for ename in sorted(enames):
        if ename not in etab or etab[ename][0] is None:
            args = (1, 1)
        else:
            args = etab[ename][0][len(etab[ename][0]) // 2]
        raw, exc, _o = sent_ebb3(ename, args, connected=False)
        part.count("no_port_cases")
        if exc is not None or raw:
            part.violation(f"noport:ebb3.{ename}", f"EBB3.{ename} with no port raised {exc!r} / "
                           f"wrote {raw!r}", {"kind": "noport", "layer": "ebb3", "helper": ename,
                                              "args": list(args)})


def replay(case):
    global _CTX                             # pylint: disable=global-statement
    if _CTX is None:
        _CTX = core.Ctx("quick", 0, 1)
    kind = case["kind"]
    if kind == "gated_pair":
        from .c15 import check_gate_history     # pylint: disable=import-outside-toplevel
        return check_gate_history("same", case["first"], case["second"], case["version"])
    if kind == "reconnect":
        return reconnect_session(case["how"])
    if kind == "slow_session":
        return slow_session(case["layer"], case["stall"], case["length"])
    if kind == "table":
        part = core.Part()
        ltab, etab = legacy_table(_CTX), ebb3_table(_CTX)
        return [f"undocumented helper {n}" for n in legacy_helpers() if n not in ltab] + \
               [f"undocumented method {n}" for n in request_methods() if n not in etab]
    if kind == "text":
        args = tuple(case["args"])
        table = legacy_table(_CTX) if case["layer"] == "legacy" else ebb3_table(_CTX)
        if case["helper"] == "motors_enable":
            state = tuple(case["motor_state"])
            bad = check_case("ebb3", "motors_enable", args,
                             lambda a, b: motors_enable_expected(a, b, state), state)
        else:
            bad = check_case(case["layer"], case["helper"], args, table[case["helper"]][1])
        return [m for _k, m in bad]
    part = core.Part()
    ltab, etab = legacy_table(_CTX), ebb3_table(_CTX)
    if kind == "cross":
        conv = {(l, e): c for l, e, c in CROSS}[(case["legacy"], case["ebb3"])]
        args = tuple(case["args"])
        raw_l, exc_l = sent_legacy(case["legacy"], args, verbose=False)
        raw_e, exc_e, _o = sent_ebb3(case["ebb3"], conv(args), motor_state=(True, True, 1))
        got_l, got_e = texts(raw_l), texts(raw_e)
        if got_l and got_l[0] == "V" and case["legacy"] in ("servo_timeout", "queryVoltage"):
            got_l = got_l[1:]
        if exc_l or exc_e or got_l != got_e:
            return [f"layers disagree: legacy {got_l!r}, EBB3 {got_e!r}"]
        return []
    _cross_and_noport(part, ltab, etab)
    return [v["msg"] for v in part.violations if v["key"].startswith("noport")]
