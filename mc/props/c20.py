"""C20 - text helpers: XML escaping round-trips; durations format to the nearest second.

(a) all token sequences of length 0..4 (thorough 5) over an alphabet of XML-special
    characters, pre-escaped entities and ordinary text, parsed back with lxml from element
    content and from single- and double-quoted attributes;
(b) every integer millisecond from 0 past the hour rollover, as milliseconds and as seconds,
    plus the three floats around every half-second boundary, against an exact oracle.
"""
import itertools
import math
import re
from decimal import ROUND_HALF_EVEN, Decimal
from fractions import Fraction as F

from .. import core

PROPERTY = "C20"
TOKENS = ["&", "<", ">", '"', "'", "a", ";", "#", " ", "é", "&amp;", "&lt;", "&#38;", "&quot;",
          "]]>", "x26",
          # the edges of the XML 1.0 character ranges: #x20-#xD7FF, #xE000-#xFFFD, #x10000-#x10FFFF
          "\ud7ff", "\ue000", "\ufffd", "\U00010000", "\U0001F58A", "\U0010FFFF", "\x7f",
          # line breaks and tabs: multi-line titles and descriptions.  A conforming parser itself
          # normalises these (CR LF and CR -> LF; in attribute values each becomes a blank), so the
          # read-back is compared with the *normalised* original - everything else stays exact
          "\n", "\t", "\r"]
ENTITY = re.compile(r"&(?!(amp|lt|gt|quot|apos);)")
HMS = re.compile(r"^(\d+):(\d\d):(\d\d) \(Hours, minutes, seconds\)$")
MS = re.compile(r"^(\d+):(\d\d) \(Minutes, seconds\)$")
SEC = re.compile(r"^(\d\d) Seconds$")


def _lib():
    from plotink import text_utils          # pylint: disable=import-outside-toplevel
    return text_utils


def check_escape(text):
    from lxml import etree                  # pylint: disable=import-outside-toplevel
    text_utils = _lib()
    core.rejected(text_utils.xml_escape, None)
    try:
        esc = text_utils.xml_escape(text)
    except Exception as exc:                # pylint: disable=broad-except
        return [("raise", f"xml_escape({text!r}) raised {exc!r}")]
    out = []
    if not isinstance(esc, str) or any(ch in esc for ch in "<>\"'"):
        out.append(("special", f"xml_escape({text!r}) = {esc!r} still contains a special character"))
    if isinstance(esc, str) and ENTITY.search(esc):
        out.append(("ampersand", f"xml_escape({text!r}) = {esc!r} has an ampersand that does not "
                    f"start one of the five entities"))
    if out:
        return out
    doc = f"<r a=\"{esc}\" b='{esc}'>{esc}</r>".encode("utf-8")
    try:
        root = etree.fromstring(doc)
    except etree.XMLSyntaxError as exc:
        return [("parse", f"xml_escape({text!r}) = {esc!r} does not parse: {exc}")]
    back = (root.text or "", root.get("a"), root.get("b"))
    content = text.replace("\r\n", "\n").replace("\r", "\n")          # XML 1.0 section 2.11
    attr = content.replace("\n", " ").replace("\t", " ")               # XML 1.0 section 3.3.3
    if back != (content, attr, attr):
        out.append(("roundtrip", f"xml_escape({text!r}) = {esc!r} is read back as content "
                    f"{back[0]!r}, attribute {back[1]!r} / {back[2]!r}"))
    return out


def expected_short(value):
    quant = Decimal(value).quantize(Decimal("0.001"), rounding=ROUND_HALF_EVEN)
    return f"{quant:.3f} Seconds"


def check_duration(value, milliseconds, setting=None):
    """value: int or float handed to format_hms.  setting: the caller's decimal context while
    the library runs (the oracle below always computes in a context of its own)."""
    text_utils = _lib()
    desc = f"format_hms({value!r}, {milliseconds})"
    core.rejected(text_utils.format_hms, "soon", milliseconds)
    try:
        if setting:
            with decimal_setting(setting):
                got = text_utils.format_hms(value, milliseconds)
        else:
            got = text_utils.format_hms(value, milliseconds)
    except Exception as exc:                # pylint: disable=broad-except
        return [("raise", f"{desc} raised {exc!r}")]
    secs = F(value) / 1000 if milliseconds else F(value)
    if milliseconds:
        secs = F(value / 1000.0)            # the documented unit scaling is a float division
    if secs < 10:
        want = expected_short(value / 1000.0 if milliseconds else value)
        if got != want:
            return [("short", f"{desc} = {got!r}, expected {want!r}")]
        return []
    low = math.floor(secs)
    frac = secs - low
    allowed = {low} if frac < F(1, 2) else ({low + 1} if frac > F(1, 2) else {low, low + 1})
    match = HMS.match(got) or MS.match(got) or SEC.match(got)
    if not match:
        return [("form", f"{desc} = {got!r}: not one of the documented forms")]
    fields = [int(g) for g in match.groups()]
    if len(fields) == 3:
        hours, mins, sec = fields
    elif len(fields) == 2:
        hours, (mins, sec) = 0, fields
    else:
        hours, mins, sec = 0, 0, fields[0]
    total = 3600 * hours + 60 * mins + sec
    out = []
    if mins > 59 or sec > 59:
        out.append(("fields", f"{desc} = {got!r}: minutes/seconds field out of 00..59"))
    if total not in allowed:
        out.append(("rounding", f"{desc} = {got!r} encodes {total} s; the duration "
                    f"{float(secs)!r} s rounds to {sorted(allowed)}"))
    form = 3 if total >= 3600 else (2 if total >= 60 else 1)
    if len(fields) != form:
        out.append(("form", f"{desc} = {got!r}: {total} s must use the "
                    f"{['ss', 'm:ss', 'h:mm:ss'][form - 1]} form"))
    return out


def check_equiv(millis):
    text_utils = _lib()
    try:
        a_txt = text_utils.format_hms(millis, True)
        b_txt = text_utils.format_hms(millis / 1000.0)
    except Exception as exc:                # pylint: disable=broad-except
        return [("raise", f"format_hms({millis}) raised {exc!r}")]
    if a_txt != b_txt:
        return [("equiv", f"format_hms({millis}, True) = {a_txt!r} but format_hms({millis / 1000.0!r}) "
                 f"= {b_txt!r}")]
    return []


def _escape_chunk(args):
    firsts, length = args
    part = core.Part()
    for first in firsts:
        for rest in itertools.product(TOKENS, repeat=max(length - 1, 0)):
            text = (first + "".join(rest)) if length else ""
            bad = check_escape(text)
            part.count("escape_cases")
            if "&" in text and any(ch in text for ch in "<>\"'"):
                part.count("nontrivial")
            for clause, msg in bad:
                part.violation(f"{clause}:{text!r}", msg, {"kind": "escape", "text": text})
            if not length:
                return part
    part.sample({"text": firsts[0] + "&lt;'" if firsts else ""}, limit=1)
    return part


# the delimiters of XML's own constructs: text that *looks like* a CDATA section, a comment,
# a processing instruction or a character reference is still just text to be escaped
MARKUP = ["<![CDATA[", "]]>", "<!--", "-->", "<?xml ", "?>", "&#x", "x < y & z", "a", ";"]


def source_markers():
    """Texts built from the string literals of text_utils' own source (entity names, markers,
    private-use or control characters a rewrite parks data on): each literal alone, doubled,
    inside ordinary text, next to each special character, and every ordered pair of literals."""
    lits = [t for t in core.harvest_strings(_lib(), 24)]
    out = []
    for lit in lits:
        out += [lit, lit + lit, "a" + lit + "b", "&" + lit, lit + "&", "<" + lit + ">",
                lit + "'\"", lit[::-1], lit[:-1], lit[1:]]
    for one in lits:
        for two in lits:
            if one != two:
                out.append(one + two)
    def legal(char):                        # XML 1.0 production [2] Char: the property's domain
        code = ord(char)
        return code in (0x9, 0xA, 0xD) or 0x20 <= code <= 0xD7FF or 0xE000 <= code <= 0xFFFD \
            or 0x10000 <= code <= 0x10FFFF
    return [t for t in dict.fromkeys(out) if t and all(legal(ch) for ch in t)]


def _markers_chunk(texts):
    part = core.Part()
    for text in texts:
        part.count("escape_cases")
        part.count("source_marker_texts")
        try:
            bad = check_escape(text)
        except Exception as exc:            # pylint: disable=broad-except
            bad = [("raise", f"xml_escape({text!r}) could not be judged: {exc!r}")]
        for clause, msg in bad:
            part.violation(f"{clause}:{text!r}", msg, {"kind": "escape", "text": text})
    return part


def _markup_chunk(firsts):
    part = core.Part()
    for first in firsts:
        for length in range(0, 4):
            for rest in itertools.product(MARKUP, repeat=length):
                text = first + "".join(rest)
                part.count("escape_cases")
                part.count("markup_sequences")
                for clause, msg in check_escape(text):
                    part.violation(f"{clause}:{text!r}", msg, {"kind": "escape", "text": text})
    return part


LONG_COUNTS = [8, 16, 31, 32, 33, 34, 63, 64, 65, 100, 127, 128, 129, 255, 256, 257, 1000, 4097]


def long_texts(ctx):
    """Long inputs: every token repeated n times, and cycles through the specials, for n
    around powers of two and well beyond (a replacement count, a buffer size or a recursion
    limit shows only past some length)."""
    counts = list(LONG_COUNTS) + ([10 ** 4, 65537] if ctx.thorough else [])
    out = []
    for count in counts:
        for token in TOKENS:
            out.append(token * count)
        cycle = "&<>\"'"
        out.append((cycle * (count // 5 + 1))[:count])
        out.append("a&" * count)
        out.append(("x<y>&amp;'" * count)[:count * 3])
        out.append("a" * count + "&" + "b" * count + "<")
    # block sizes: a few tokens at lengths around 2^16 and 2^17 (a specials-only string, a plain
    # one, one with a special exactly on the block boundary)
    for count in (65535, 65536, 65537, 131071, 131073):
        out.append("x" * count)
        out.append("&" * count)
        out.append("x" * (count - 1) + "<")
        out.append("x" * 65535 + "'" + "y" * (count - 65535))
    return out


def _long_chunk(texts):
    part = core.Part()
    for text in texts:
        for clause, msg in check_escape(text):
            short = text if len(text) <= 40 else f"{text[:20]}...({len(text)} characters)"
            msg = msg.replace(repr(text), repr(short))
            msg = msg if len(msg) < 700 else msg[:340] + " ... " + msg[-340:]
            part.violation(f"{clause}:long:{core.digest(text)}", msg,
                           {"kind": "escape", "text": text})
        part.count("escape_cases")
        part.count("long_escape_cases")
        part.count("nontrivial")
    return part


# every XML 1.0 character from #x20 up (tab, LF and CR are in the token alphabet instead, with
# the read-back a conforming parser must deliver for them)
LEGAL_RANGES = ((0x20, 0xD7FF), (0xE000, 0xFFFD), (0x10000, 0x10FFFF))


def _codepoint_chunk(args):
    """Each character alone, after a base letter and before a combining mark (a canonical
    composition, a case mapping or a compatibility folding changes at least one of the three),
    in one text per code point together with two characters that must be escaped."""
    start, stop = args
    part = core.Part()
    for code in range(start, stop):
        char = chr(code)
        text = char + "&e" + char + "<" + char + "\u0301"
        for clause, msg in check_escape(text):
            part.violation(f"{clause}:U+{code:04X}", msg, {"kind": "escape", "text": text})
        part.count("escape_cases")
        part.count("codepoint_cases")
    return part


def _duration_chunk(args):
    start, stop, step = args
    part = core.Part()
    for millis in range(start, stop, step):
        for clause, msg in check_duration(millis, True) + check_duration(millis / 1000.0, False) + \
                check_equiv(millis):
            part.violation(f"{clause}:{millis}ms", msg, {"kind": "ms", "millis": millis})
        part.count("duration_cases", 3)
        if millis % 1000 >= 400 and millis % 1000 <= 600 and millis >= 9000:
            part.count("nontrivial")
    return part


def _half_chunk(args):
    start, stop = args
    part = core.Part()
    for k in range(start, stop):
        mid = k + 0.5
        for value in (math.nextafter(mid, 0), mid, math.nextafter(mid, math.inf)):
            for clause, msg in check_duration(value, False):
                part.violation(f"{clause}:{value!r}", msg, {"kind": "sec", "value": value})
            part.count("duration_cases")
            part.count("nontrivial")
    return part


def _halfms_chunk(args):
    """Millisecond inputs that are not whole numbers: every half millisecond below 10 s, and the
    floats around every half-second mark given in milliseconds.  "Equivalent seconds" is the
    correctly rounded quotient ms / 1000.0 - a scaling that is off by one unit in the last
    place lands on the other side of a rounding boundary exactly here."""
    start, stop = args
    part = core.Part()
    for k in range(start, stop):
        values = [1000.0 * k + 500.0]
        values += [math.nextafter(values[0], 0), math.nextafter(values[0], math.inf)]
        if k < 10000:
            values.append(k + 0.5)
        for millis in values:
            for clause, msg in check_duration(millis, True) + check_equiv(millis):
                part.violation(f"{clause}:ms:{millis!r}", msg, {"kind": "ms", "millis": millis})
            part.count("duration_cases")
            part.count("nontrivial")
    return part


def _edge_chunk(values):
    part = core.Part()
    for value in values:
        for use_ms, arg in ((False, value), (True, value * 1000.0)):
            for clause, msg in check_duration(arg, use_ms):
                part.violation(f"{clause}:edge:{arg!r}:{use_ms}", msg,
                               {"kind": "edge", "value": arg, "ms": use_ms})
            part.count("duration_cases")
            part.count("nontrivial")
    return part


def _int_chunk(values):
    part = core.Part()
    for value in values:
        for clause, msg in check_duration(value, False):
            part.violation(f"{clause}:{value}", msg, {"kind": "sec", "value": value})
        part.count("duration_cases")
    return part


DECIMAL_SETTINGS = ("prec6", "round_down", "round_half_up", "basic", "traps_inexact",
                    # ... and the process's time zone (a duration is not a time of day)
                    "tz:IST-5:30", "tz:NPT-5:45", "tz:NST3:30", "tz:EST5EDT")


class decimal_setting:                      # pylint: disable=invalid-name
    """The calling program's decimal context - like the ambient mpmath precision of the motion
    calculators, a process-wide arithmetic setting the library does not own."""

    def __init__(self, name):
        self.name = name
        self.manager = None

    def __enter__(self):
        import decimal                      # pylint: disable=import-outside-toplevel
        import os                           # pylint: disable=import-outside-toplevel
        import time                         # pylint: disable=import-outside-toplevel
        self.old_tz = None
        if self.name.startswith("tz:"):
            self.old_tz = os.environ.get("TZ", "")
            os.environ["TZ"] = self.name[3:]
            time.tzset()
        self.manager = decimal.localcontext()
        ctx = self.manager.__enter__()
        if self.name == "prec6":
            ctx.prec = 6
        elif self.name == "round_down":
            ctx.rounding = decimal.ROUND_DOWN
        elif self.name == "round_half_up":
            ctx.rounding = decimal.ROUND_HALF_UP
        elif self.name == "basic":
            decimal.setcontext(decimal.BasicContext.copy())
        elif self.name == "traps_inexact":
            ctx.traps[decimal.Inexact] = True
        return self

    def __exit__(self, *exc):
        if self.old_tz is not None:
            import os                       # pylint: disable=import-outside-toplevel
            import time                     # pylint: disable=import-outside-toplevel
            if self.old_tz:
                os.environ["TZ"] = self.old_tz
            else:
                os.environ.pop("TZ", None)
            time.tzset()
        return self.manager.__exit__(*exc)


def _decimal_chunk(values):
    part = core.Part()
    for setting in DECIMAL_SETTINGS:
        for value in values:
            for millis in (False, True):
                bad = check_duration(value, millis, setting)
                part.count("duration_cases")
                part.count("decimal_context_cases")
                for clause, msg in bad:
                    part.violation(f"{clause}:decimal:{setting}:{value!r}:{millis}",
                                   msg + f" [caller's decimal context: {setting}]",
                                   {"kind": "duration_decimal", "value": value,
                                    "milliseconds": millis, "setting": setting})
    return part


def check_equal_value_histories(part):
    """Two calls in a row whose arguments compare equal and are not the same (0.0 after -0.0, 1
    after 1.0 after True, 10 after 10.0): a table of recent answers indexed by the argument
    finds the earlier entry.  The second answer is judged on its own."""
    text_utils = _lib()
    pairs = [(-0.0, 0.0), (-0.0, 0), (0.0, 0), (True, 1), (1.0, 1), (1, 1.0), (10.0, 10), (10, 10.0),
             (59.5, 59.5), (3600.0, 3600), (False, 0.0)]
    for first, second in pairs:
        for millis in (False, True):
            try:
                text_utils.format_hms(first, millis)
            except Exception:               # pylint: disable=broad-except
                pass
            bad = check_duration(second, millis)
            part.count("duration_cases")
            part.count("equal_value_histories")
            for clause, msg in bad:
                part.violation(f"{clause}:after:{first!r}:{second!r}:{millis}",
                               msg + f" - right after format_hms({first!r}, {millis})",
                               {"kind": "duration_after", "first": repr(first), "value": second,
                                "milliseconds": millis})


def _dispatch(job):
    return {"esc": _escape_chunk, "dur": _duration_chunk, "half": _half_chunk,
            "halfms": _halfms_chunk,
            "int": _int_chunk, "long": _long_chunk, "edge": _edge_chunk,
            "cp": _codepoint_chunk, "markup": _markup_chunk, "markers": _markers_chunk,
            "decimal": _decimal_chunk}[job[0]](job[1])


def run(ctx):
    max_len = ctx.pick(4, 5)
    jobs = [("esc", ([""], 0))]
    for length in range(1, max_len + 1):
        for chunk in core.split(TOKENS, 16):
            jobs.append(("esc", (chunk, length)))
    for chunk in core.split(long_texts(ctx), 16):
        jobs.append(("long", chunk))
    for chunk in core.split(MARKUP, 10):
        jobs.append(("markup", chunk))
    for chunk in core.split(source_markers(), 8):
        jobs.append(("markers", chunk))
    spread = [0, 9.9994, 9.9996, 10, 10.7, 12.5, 59.4, 59.5, 3599.4, 3599.6, 3600, 86399.7, 99999.5,
              999999.4, 999999.5, 1000000, 1234567.5, 9999999.5, 10 ** 7] + \
        [k + 0.5 for k in range(10, 60)] + list(range(0, 4000, 37))
    for chunk in core.split(spread, 8):
        jobs.append(("decimal", chunk))
    for low, high in LEGAL_RANGES:
        for start in range(low, high + 1, 0x4000):
            jobs.append(("cp", (start, min(start + 0x4000, high + 1))))
    top = 3_700_000
    span = top // 64 + 1
    for start in range(0, top + 1, span):
        jobs.append(("dur", (start, min(start + span, top + 1), 1)))
    half_top = ctx.pick(10 ** 5, 10 ** 6)
    span = half_top // 32 + 1
    for start in range(9, half_top, span):
        jobs.append(("half", (start, min(start + span, half_top))))
        jobs.append(("halfms", (start - 9 if start == 9 else start, min(start + span, half_top))))
    # a hair below / at / above every form threshold (10 s, 60 s, 3600 s), seconds and ms
    edges = []
    for thr in (10.0, 60.0, 3600.0):
        for delta in (0.0, 1e-9, 1e-6, 4e-4, 4.9e-4, 5e-4, 5.1e-4, 1e-3, 0.4999, 0.5, 0.5001):
            edges += [thr - delta, thr + delta]
        edges += [math.nextafter(thr, 0), math.nextafter(thr, math.inf)]
    jobs.append(("edge", sorted(set(edges))))
    ints = list(range(0, 7300)) + list(range(3590, 10 ** 7, 3571)) + [10 ** 7, 86399, 86400, 359999]
    ints += [abs(v) % (10 ** 7) for v in core.seeded_ints(ctx.seed, "c20.int", 8, 24, signed=False)]
    for chunk in core.split(ints, 16):
        jobs.append(("int", chunk))
    part = core.fan_out(ctx, _dispatch, jobs)
    check_equal_value_histories(part)
    from .. import callforms              # pylint: disable=import-outside-toplevel
    part.merge(callforms.explore("C20"))
    cnt = part.counters
    total = cnt.get("escape_cases", 0) + cnt.get("duration_cases", 0)
    coverage = {
        "states": total,
        "transitions": total,
        "traces_validated_against_impl": total,
        "evaluations": total,
        "distinct_nontrivial": cnt.get("nontrivial", 0),
        "rule": f"all sequences of 1..4 of {len(MARKUP)} XML construct delimiters (CDATA, comment, "
                f"PI, character reference); all token sequences of length 0..{max_len} over {len(TOKENS)} tokens (special "
                "characters, pre-escaped entities, mixed quotes) parsed back with lxml; every token "
                f"and four mixed patterns repeated {LONG_COUNTS} times, four patterns at lengths "
                "2^16-1..2^17+1; every XML 1.0 character "
                "U+0020..U+10FFFF (1,112,030 code points) alone, after a letter and before a "
                "combining mark; every "
                "integer millisecond 0..3,700,000 as ms and as seconds; every half millisecond below "
                "10 s and three floats around every half-second mark as milliseconds; three floats around every "
                f"k+0.5 s for k in 9..{half_top}; 1e-9..0.5 s either side of the 10 s, 60 s and "
                "3600 s thresholds; integers to 1e7; non-trivial = texts mixing "
                "ampersands with other specials, durations within 0.1 s of a half-second boundary",
        "samples": core.rotate(part.samples, ctx.seed, 3) + [{"milliseconds": 3599500},
                                                             {"seconds": 59.5}],
        "escape_cases": cnt.get("escape_cases", 0),
        "long_escape_cases": cnt.get("long_escape_cases", 0),
        "codepoint_cases": cnt.get("codepoint_cases", 0),
        "duration_cases": cnt.get("duration_cases", 0),
        "exhaustive": True,
    }
    assumptions = ["TAB/CR/LF are read back as a conforming parser must deliver them: CR LF and CR "
                   "become LF in content, each becomes a blank in attribute values (XML 1.0 "
                   "2.11, 3.3.3) - no escaper that leaves them literal can do better; everything "
                   "else must be read back exactly",
                   "on an exact .5 tie either neighbouring second is accepted"]
    coverage["rule"] += ("; texts built from the string literals of text_utils' own source (XML-legal ones)")
    return {"part": part, "coverage": coverage, "assumptions": assumptions}


def replay(case):
    if case.get("kind") == "callform":
        from .. import callforms          # pylint: disable=import-outside-toplevel
        return callforms.replay(case)
    if case["kind"] == "duration_after":
        first = {"-0.0": -0.0, "True": True, "False": False}.get(case["first"])
        if first is None:
            first = float(case["first"]) if "." in case["first"] else int(case["first"])
        try:
            _lib().format_hms(first, case["milliseconds"])
        except Exception:                   # pylint: disable=broad-except
            pass
        return [m for _c, m in check_duration(case["value"], case["milliseconds"])]
    if case["kind"] == "duration_decimal":
        return [m for _c, m in check_duration(case["value"], case["milliseconds"],
                                              case["setting"])]
    if case["kind"] == "edge":
        return [m for _c, m in check_duration(case["value"], case["ms"])]
    if case["kind"] == "escape":
        return [m for _c, m in check_escape(case["text"])]
    if case["kind"] == "ms":
        millis = case["millis"]
        return [m for _c, m in check_duration(millis, True) +
                check_duration(millis / 1000.0, False) + check_equiv(millis)]
    return [m for _c, m in check_duration(case["value"], False)]
