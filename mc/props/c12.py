"""C12 - length parsing and unit conversion are mutually consistent and follow SVG units.

All strings of length 1..5 (thorough 6) over {0 1 5 . - + e}: those matching the SVG number
grammar are numerals, the rest is the malformed family; x every unit suffix x whitespace
placements.  Exact factor table in Fractions; the four converters and the two document
attribute readers are cross-checked on every numeral x unit.
"""
import itertools
import re
import types
from decimal import Decimal
from fractions import Fraction as F

from .. import core

PROPERTY = "C12"
ALPHA = "015.-+e"
NUMBER = re.compile(r"^[+-]?(\d+(\.\d*)?|\.\d+)([eE][+-]?\d+)?$")
UNITS = ["", "px", "in", "mm", "cm", "pt", "pc", "Q", "q", "%"]
FACTOR = {"": F(1), "px": F(1), "in": F(96), "mm": F(96) / F("25.4"), "cm": F(96) / F("2.54"),
          "pt": F(96, 72), "pc": F(16), "Q": F(96) / F("101.6"), "q": F(96) / F("101.6")}
UNSUPPORTED = ["em", "ex", "rem", "vw", "ch", "deg", "PX", "Mm", "IN", "vmin", "px2", "p x"]
EXTRA_NUMERALS = ["12.5", "1e3", "-1.5e-2", ".5", "5.", "96", "25.4", "1e-7", "123456.789",
                  "0", "-0", "1E2", "+7",
                  # long numerals (a fixed-width field, a digit counter, a regex with a bound)
                  "0" * 40 + "1.5" + "0" * 40, "1234567890123456789012345678901234567890",
                  "-0.0000000000000000000000000000000000000125", "1" + "0" * 30 + "e-28",
                  "9" * 17 + "." + "9" * 17, "1e+3", "2.5E+2", "1.e1", "+.5e+1", "1e-300", "1e300"]
SPACES = [("", ""), (" ", ""), ("", " "), ("\t ", " \n"), ("", "")]
REF = 250.0
# references handed to the attribute reader for %: whatever the caller read from the document -
# a float, an int, a zero, text, or another number type (the reader passes it through float())
READER_REFS = (REF, 1, 0, 0.0, 1056.0, "800", " 8e2 ", Decimal("12.5"), F(7, 2), True)


def _lib():
    from plotink import plot_utils          # pylint: disable=import-outside-toplevel
    return plot_utils


def stub(value):
    """Object with .document.getroot().get(name) -> value (what the attribute readers use)."""
    root = types.SimpleNamespace(get=lambda _name: value)
    return types.SimpleNamespace(document=types.SimpleNamespace(getroot=lambda: root))


def documents(value):
    """The stub and two real lxml documents carrying the attribute: an <svg> root without and
    with a child element (an element without children is falsy - `if root:` is not `if root is
    not None:`)."""
    from lxml import etree                  # pylint: disable=import-outside-toplevel
    docs = [stub(value)]
    for children in (0, 1):
        root = etree.Element("svg")
        try:
            if value is not None:
                root.set("width", value)
        except (ValueError, TypeError):
            break                           # not a legal attribute value: only the stub carries it
        if children:
            etree.SubElement(root, "g")
        docs.append(types.SimpleNamespace(document=etree.ElementTree(root)))
    return docs


# One long-lived caller object whose document is replaced before every read, and one long-lived
# document whose attribute is rewritten in place: what a reader returns belongs to the document
# the caller holds *now*, not to the one (or the text) it saw on an earlier call.
_OWNER = types.SimpleNamespace(document=None)
_LIVE = {}


def reused_owner(doc):
    _OWNER.document = doc.document
    return _OWNER


def live_document(value):
    """The same caller object and the same lxml tree every time, attribute edited in place;
    None when the text cannot be an XML attribute value."""
    from lxml import etree                  # pylint: disable=import-outside-toplevel
    if "owner" not in _LIVE:
        root = etree.Element("svg")
        etree.SubElement(root, "g")
        _LIVE["root"] = root
        _LIVE["owner"] = types.SimpleNamespace(document=etree.ElementTree(root))
    root = _LIVE["root"]
    try:
        if value is None:
            root.attrib.pop("width", None)
        else:
            root.set("width", value)
    except (ValueError, TypeError):
        return None
    return _LIVE["owner"]


def _same(one, two):
    return one == two or (one != one and two != two)      # pylint: disable=comparison-with-itself


def close(got, want, rel=F(1, 10 ** 12)):
    if not isinstance(got, float):
        return False
    want = F(want)
    return abs(F(got) - want) <= rel * max(abs(want), F(1, 10 ** 300))


def compose(numeral, unit, space_idx):
    lead, trail = SPACES[space_idx]
    mid = " " if space_idx == 4 and unit else ""
    return lead + numeral + mid + unit + trail


def check_valid(numeral, unit, space_idx):
    plot_utils = _lib()
    text = compose(numeral, unit, space_idx)
    core.rejected(plot_utils.unitsToUserUnits, 12.5, "wide")
    core.rejected(plot_utils.getLength, None, "width", 5)
    value = F(Decimal(numeral))
    if abs(value) > F(10) ** 300:
        return []
    out = []
    desc = f"{text!r}"
    want_unit = "px" if unit == "" else ("Q" if unit in ("Q", "q") else unit)
    try:
        got = plot_utils.parseLengthWithUnits(text)
        if not (isinstance(got, tuple) and len(got) == 2 and close(got[0], value, F(1, 10 ** 15))
                and got[1] == want_unit) and not (value == 0 and got[0] == 0 and got[1] == want_unit):
            out.append(("parse", f"parseLengthWithUnits({desc}) = {got!r}, expected "
                        f"({float(value)!r}, {want_unit!r})"))
        # the same text as an instance of a str subclass (what an XML library's xpath() hands
        # out for an attribute): it *is* text
        sub = plot_utils.parseLengthWithUnits(AttributeText(text))
        if sub != got:
            out.append(("parse_subclass", f"parseLengthWithUnits(<str subclass instance {desc}>) = "
                        f"{sub!r}, the plain str gives {got!r}"))
        ref = None if unit != "%" else REF
        user = plot_utils.unitsToUserUnits(text, ref)
        user_sub = plot_utils.unitsToUserUnits(AttributeText(text), ref)
        if user_sub != user:
            out.append(("to_user_subclass", f"unitsToUserUnits(<str subclass instance {desc}>) = "
                        f"{user_sub!r}, the plain str gives {user!r}"))
        if unit == "%":
            want_user = value * F(REF) / 100
        else:
            want_user = value * FACTOR[unit]
        if not close(user, want_user) and not (want_user == 0 and user == 0):
            out.append(("to_user", f"unitsToUserUnits({desc}) = {user!r}, expected value x SVG "
                        f"factor = {float(want_user)!r}"))
        if unit == "%":
            bare = plot_utils.unitsToUserUnits(text)
            back = plot_utils.userUnitToUnits(bare, "%")
            # "no reference" is spelled by leaving the argument out or by passing its
            # documented default explicitly (a wrapper forwarding its own optional argument)
            for how, again in (("None", plot_utils.unitsToUserUnits(text, None)),
                               ("percent_ref=None",
                                plot_utils.unitsToUserUnits(text, percent_ref=None))):
                if again != bare:
                    out.append(("noref", f"unitsToUserUnits({desc}, {how}) = {again!r} but "
                                f"unitsToUserUnits({desc}) = {bare!r}"))
        else:
            back = plot_utils.userUnitToUnits(user, unit)
        if not close(back, value) and not (value == 0 and back == 0):
            out.append(("back", f"userUnitToUnits(unitsToUserUnits({desc}), {unit!r}) = {back!r}, "
                        f"expected the original value {float(value)!r}"))
        for ref_doc in (READER_REFS if unit == "%" else (REF, 0)):
            # the attribute reader takes the percentage of whatever reference is supplied,
            # a zero reference included; absolute units do not depend on it
            want_px = value * F(ref_doc) / 100 if unit == "%" else want_user
            for doc in documents(text)[:1 if ref_doc != REF else 3]:
                px_len = plot_utils.getLength(doc, "width", ref_doc)
                if not close(px_len, want_px) and not (want_px == 0 and px_len == 0):
                    out.append(("getLength", f"getLength(<{desc}>, default={ref_doc!r}) = "
                                f"{px_len!r}, expected {float(want_px)!r}"))
                    break
                again = plot_utils.getLength(reused_owner(doc), "width", ref_doc)
                live = live_document(text)
                edited = px_len if live is None else plot_utils.getLength(live, "width", ref_doc)
                if not _same(again, px_len) or not _same(edited, px_len):
                    out.append(("owner_reuse", f"getLength(<{desc}>, default={ref_doc!r}) = "
                                f"{px_len!r} from a fresh caller object, {again!r} from a caller "
                                f"object that held another document on its previous call, "
                                f"{edited!r} from a document whose attribute was just rewritten"))
                    break
        for k, doc in enumerate(documents(text)):
            kind = ("stub document", "real <svg> without children", "real <svg> with a child")[k]
            inches = plot_utils.getLengthInches(doc, "width")
            again = plot_utils.getLengthInches(reused_owner(doc), "width")
            live = live_document(text)
            edited = inches if live is None else plot_utils.getLengthInches(live, "width")
            if not _same(again, inches) or not _same(edited, inches):
                out.append(("owner_reuse", f"getLengthInches(<{desc}>) [{kind}] = {inches!r} from "
                            f"a fresh caller object, {again!r} from a caller object that held "
                            f"another document on its previous call, {edited!r} from a document "
                            f"whose attribute was just rewritten"))
                break
            if unit == "%":
                if inches is not None:
                    out.append(("inches_pct", f"getLengthInches(<{desc}>) = {inches!r} for a "
                                f"percentage (no reference): expected None"))
                    break
            elif not close(inches, want_user / 96) and not (want_user == 0 and inches == 0):
                out.append(("inches", f"getLengthInches(<{desc}>) [{kind}] = {inches!r}; "
                            f"pixels / 96 = {float(want_user / 96)!r}"))
                break
    except Exception as exc:                # pylint: disable=broad-except
        out.append(("raise", f"length functions on {desc} raised {type(exc).__name__}: {exc}"))
    return out


def check_malformed(text):
    plot_utils = _lib()
    out = []
    desc = f"{text!r}"
    try:
        got = plot_utils.parseLengthWithUnits(text)
        if got != (None, None):
            out.append(("mal_parse", f"parseLengthWithUnits({desc}) = {got!r}; text without a "
                        f"numeric part or with an unsupported unit must give (None, None)"))
        user = plot_utils.unitsToUserUnits(text, REF)
        if user is not None:
            out.append(("mal_user", f"unitsToUserUnits({desc}) = {user!r}, expected None"))
        if text.strip():
            px_len = plot_utils.getLength(stub(text), "width", REF)
            if px_len is not None:
                out.append(("mal_getLength", f"getLength(<{desc}>) = {px_len!r}, expected None"))
            inches = plot_utils.getLengthInches(stub(text), "width")
            if inches is not None:
                out.append(("mal_inches", f"getLengthInches(<{desc}>) = {inches!r}, expected None"))
    except Exception as exc:                # pylint: disable=broad-except
        out.append(("mal_raise", f"length functions on malformed {desc} raised "
                    f"{type(exc).__name__}: {exc}"))
    return out


def check_absent():
    """Attribute absent: getLength falls back to the default, getLengthInches to None."""
    plot_utils = _lib()
    out = []
    for absent in (None, ""):
        try:
            if plot_utils.getLength(stub(absent), "width", 321) != 321.0 or \
                    plot_utils.getLengthInches(stub(absent), "width") is not None or \
                    plot_utils.parseLengthWithUnits(None) != (None, None) or \
                    plot_utils.userUnitToUnits(None, "mm") is not None:
                out.append(f"absent attribute {absent!r} not handled as documented")
        except Exception as exc:            # pylint: disable=broad-except
            out.append(f"absent attribute {absent!r} raised {exc!r}")
    return out


def _chunk(args):
    prefixes, max_len = args
    part = core.Part()
    for prefix in prefixes:
        for length in range(len(prefix), max_len + 1):
            for rest in itertools.product(ALPHA, repeat=length - len(prefix)):
                text = prefix + "".join(rest)
                _one_string(part, text)
    return part


class AttributeText(str):
    """A str subclass, as XML libraries hand out for attribute values (lxml's xpath results)."""


def _one_string(part, text):
    if NUMBER.match(text):
        for unit in UNITS:
            for space_idx in range(len(SPACES)):
                bad = check_valid(text, unit, space_idx)
                part.count("valid_cases")
                if unit not in ("", "px"):
                    part.count("nontrivial")
                for clause, msg in bad:
                    part.violation(f"{clause}:{unit}:{text}:{space_idx}", msg,
                                   {"kind": "valid", "numeral": text, "unit": unit,
                                    "space": space_idx})
        for suffix in UNSUPPORTED:
            for clause, msg in check_malformed(text + suffix):
                part.violation(f"{clause}:{suffix}:{text}", msg,
                               {"kind": "malformed", "text": text + suffix})
            part.count("malformed_cases")
        part.sample({"numeral": text, "units": UNITS}, limit=1)
    else:
        for unit in UNITS:
            for clause, msg in check_malformed(text + unit):
                part.violation(f"{clause}:{unit}:{text}", msg,
                               {"kind": "malformed", "text": text + unit})
            part.count("malformed_cases")


SUFFIX_LETTERS = "pxinmctQq%"
SUFFIX_NUMERALS = ["5", "1.5", "-.5e1", "210", "0"]


def _suffix_chunk(args):
    """Numeral + every string of 1..max_len letters drawn from the supported units' own
    letters: exactly the nine supported suffixes are lengths, every other one (doubled,
    truncated, transposed or concatenated unit names such as 'mmm', '%%', 'pxpx', 'iin') is
    an unsupported unit and must give None everywhere."""
    firsts, max_len = args
    part = core.Part()
    for first in firsts:
        for length in range(1, max_len + 1):
            for rest in itertools.product(SUFFIX_LETTERS, repeat=length - 1):
                suffix = first + "".join(rest)
                if suffix in UNITS:
                    continue
                for numeral in SUFFIX_NUMERALS:
                    text = numeral + suffix
                    for clause, msg in check_malformed(text):
                        part.violation(f"{clause}:suffix:{suffix}:{numeral}", msg,
                                       {"kind": "malformed", "text": text})
                    part.count("malformed_cases")
                    part.count("unit_letter_suffix_cases")
    return part


def run(ctx):
    max_len = ctx.pick(5, 6)
    prefixes = ["".join(p) for p in itertools.product(ALPHA, repeat=2)]
    jobs = [(chunk, max_len) for chunk in core.split(prefixes, 49)]
    part = core.fan_out(ctx, _chunk, jobs)
    for text in list(ALPHA):
        _one_string(part, text)
    part.merge(core.fan_out(ctx, _suffix_chunk,
                            [([letter], ctx.pick(4, 5)) for letter in SUFFIX_LETTERS]))
    seeded = [str(abs(v)) + "." + str(abs(v) % 1000) for v in
              core.seeded_ints(ctx.seed, "c12.num", 4, 24)]
    for text in EXTRA_NUMERALS + seeded:
        _one_string(part, text)
    for text in ["", " ", "px", "mm", "%", "Q", "in", "e", ".", "+", "-.", "5 5", "5,5"]:
        for clause, msg in check_malformed(text):
            part.violation(f"{clause}:bare:{text!r}", msg, {"kind": "malformed", "text": text})
        part.count("malformed_cases")
    # characters that *look like* parts of a number and are not: typographic minus and dashes,
    # a decimal comma, a middle dot, the multiplication sign of "1x10^3" - in the places where
    # the real sign, point and exponent marker stand.  None of them is SVG number syntax.
    for mark in ("\u2212", "\u2013", "\u2014", "\u2010", "\ufe63", "\uff0d", "\u00ad", "\uff0b",
                 "\u00b7", "\uff0e", "\u066b", "\u00d7"):
        for text in (mark + "5", "1e" + mark + "3", " " + mark + "2.5 ", "7" + mark + "5",
                     mark + ".5e1", "1" + mark + "5e2"):
            for unit in ("", "mm", "in", "%"):
                for clause, msg in check_malformed(text.rstrip() + unit if unit else text):
                    part.violation(f"{clause}:lookalike:{text!r}:{unit}", msg,
                                   {"kind": "malformed", "text": text.rstrip() + unit if unit else text})
                part.count("malformed_cases")
                part.count("lookalike_cases")
    # words that CSS / SVG allow where a length may stand (and a few that only look the part):
    # none of them has a numeric part
    for word in ("auto", "inherit", "initial", "unset", "none", "normal", "medium", "thin", "thick",
                 "100", "fit-content", "max-content", "min-content", "calc(5px)", "infinity",
                 "Infinity", "NaN", "true", "None", "px5", "mm 5", "5 mm 5", "0x10", "1e", "e1",
                 "--5", "+-5", "5..", "..5", "5e1.5", "1,5", "5;", "#5", "5px;"):
        for text in (word, " " + word + " ", word.upper()):
            if text.strip() in ("100", "0X10") or NUMBER.match(text.strip()):
                continue
            if text.strip().lower() in ("infinity", "nan", "inf"):
                continue                    # Python-only numerals: outside the quantifier
            for clause, msg in check_malformed(text):
                part.violation(f"{clause}:word:{text!r}", msg, {"kind": "malformed", "text": text})
            part.count("malformed_cases")
            part.count("keyword_cases")
    for msg in check_absent():
        part.violation("absent", msg, {"kind": "absent"})
    part.count("malformed_cases", 2)
    from .. import callforms              # pylint: disable=import-outside-toplevel
    part.merge(callforms.explore("C12"))
    cnt = part.counters
    total = cnt.get("valid_cases", 0) + cnt.get("malformed_cases", 0)
    coverage = {
        "states": total,
        "transitions": total,
        "traces_validated_against_impl": total,
        "evaluations": total,
        "distinct_nontrivial": cnt.get("nontrivial", 0),
        "rule": f"all strings of length 1..{max_len} over '{ALPHA}': numerals (SVG number grammar) "
                "x 10 unit suffixes x 5 whitespace placements through the parser, both "
                "converters and both attribute readers; non-numerals x units and numerals x 12 "
                "unsupported suffixes must give None; 5 numerals x every string of 1..4 (5) letters "
                "drawn from the unit names' own letters 'pxinmctQq%' other than the nine "
                "units must give None (doubled/transposed/concatenated units); non-trivial = numeral x unit with a "
                "conversion factor other than 1",
        "samples": core.rotate(part.samples, ctx.seed, 4),
        "valid_cases": cnt.get("valid_cases", 0),
        "malformed_cases": cnt.get("malformed_cases", 0),
        "unit_letter_suffix_cases": cnt.get("unit_letter_suffix_cases", 0),
        "exhaustive": True,
    }
    assumptions = ["96 px per inch; factors in/mm/cm/pt/pc/Q from SVG/CSS as exact rationals",
                   "nan/inf/underscore literals and values overflowing to infinity are outside "
                   "the quantifier; a zero reference is asserted for the attribute reader "
                   "(getLength: x% of 0 is 0) but not for unitsToUserUnits, whose optional "
                   "reference is documented as 'absent or falsy means none'"]
    coverage["rule"] += ('; every attribute read repeated through one long-lived caller object whose document is replaced before each read and through one long-lived lxml document whose attribute is rewritten in place')
    return {"part": part, "coverage": coverage, "assumptions": assumptions}


def replay(case):
    if case.get("kind") == "callform":
        from .. import callforms          # pylint: disable=import-outside-toplevel
        return callforms.replay(case)
    if case["kind"] == "valid":
        return [m for _c, m in check_valid(case["numeral"], case["unit"], case["space"])]
    if case["kind"] == "malformed":
        return [m for _c, m in check_malformed(case["text"])]
    return check_absent()
