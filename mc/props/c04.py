"""C04 - an EBB3 connection object latches its first error and then transmits nothing.

State graph over the real object (E2): a state is the history (operations + environment
choice vector) that reaches it; the object is rebuilt by replaying the history on a fresh
object and fake board.  From the healthy state every request method is run under every
environment deviation (E1, bound 1 quick / 2 thorough) to *discover* the error states (one
per distinct recorded message and board state).  From every error state and every
not-connected state, every request method is run again, then disconnect, then connect
(succeeding / non-EBB / open failing / no disconnect) followed by every method once more.
"""
from .. import core
from ..ebb3drv import (call, connect_env, decoy_problem, is_failure_value, make_decoy,
                       new_object, operations, SerialException)
from ..explore import Chooser, Stats, explore
from ..fakeserial import PYSERIAL_READ_FAULTS, PYSERIAL_WRITE_FAULTS, EBB3Board, FakePort, Profile, QUIET

PROPERTY = "C04"

EXC_KINDS = ("SerialException", "SerialTimeoutException", "PortNotOpenError", "OSError",
             "RuntimeError", "OSError_EAGAIN",
        "InterruptedError", "BrokenPipeError")
# (what pyserial back ends raise, plus RuntimeError, which the library's own except clauses
# name among the serial I/O exceptions)
# ... and each fault pyserial's own read()/write() can raise, with the class and text pyserial uses
FAULTS = Profile(write_exc=EXC_KINDS + PYSERIAL_WRITE_FAULTS, read_exc=EXC_KINDS + PYSERIAL_READ_FAULTS,
                 latency=(0, 1, 26), content=("err", "nameerr", "wrong", "sibling", "cut", "longerr", "jsonish", "lonebrace",
                          "banner"), prefix=("banner", "other"),
                 silent=True,
                 read_window=2)

CONNECT_ENVS = ("ok", "nonebb", "openfail", "silent", "oldfw", "versionless", "missingname",
                "prerelease")


def _factory(env, chooser, ports):
    def make(_name):
        if env == "openfail":
            raise SerialException("could not open port (injected)")
        if env == "nonebb":
            board = EBB3Board(banner="Hello from some other device")
        elif env == "silent":
            board = EBB3Board(version=None)
        elif env == "oldfw":
            board = EBB3Board(version="2.8.1")
        elif env == "prerelease":           # a release candidate of the minimum: older than it
            board = EBB3Board(version="3.0.2rc1")
        elif env == "versionless":
            board = EBB3Board(banner="EBBv13_and_above EB Firmw")
        else:
            board = EBB3Board(version="3.0.2", nickname="Axi")
        port = FakePort(board, chooser, QUIET)
        ports.append(port)
        return port
    return make


def canonical(obj, ports):
    port = ports[-1] if ports else None
    return (obj.port is None, obj.err, obj.name, obj.version, obj.port_name,
            port.board.snapshot() if port else None,
            tuple((ln.text, ln.delay) for ln in port.queue) if port else None)


def run_history(chooser, steps):
    """Execute steps on a fresh object.  Returns (violations, trace of canonical states,
    number of blocked transitions checked, final object)."""
    start_connected = steps[0][0] != "never"
    decoy = make_decoy()
    obj, port, _board = new_object(chooser, FAULTS, connected=start_connected)
    ports = [port]
    viols = []
    states = []
    checked = 0
    history = []
    latched_at = []                     # write attempts made when the first error was latched
    obj.__dict__["_verif_on_latch"] = lambda: latched_at.append(
        sum(len(p.write_attempts) for p in ports))
    for i, step in enumerate(steps):
        for prt in ports:
            prt.tag = f"s{i}:"
        kind = step[0]
        pre_blocked = obj.port is None or obj.err is not None
        pre_err = obj.err
        pre_writes = sum(len(p.write_attempts) for p in ports)
        pre_ports = len(ports)
        pre_faults = sum(len(p.faults) for p in ports)
        where = f"after {history!r}: "
        if kind == "never":
            history.append("never-connected")
            states.append(canonical(obj, ports))
            continue
        if kind == "op":
            _label, method, args = step[1]
            ret, exc = call(obj, method, tuple(args))
            desc = f"{method}{tuple(args)!r}"
            if pre_blocked:
                checked += 1
                state_kind = "error-latched" if pre_err is not None else "not-connected"
                key_tail = f"{method}:{state_kind}"
                if exc is not None:
                    viols.append((f"raise:{key_tail}", f"{where}{desc} on a {state_kind} object "
                                  f"raised {type(exc).__name__}: {exc}"))
                new_writes = sum(len(p.write_attempts) for p in ports) - pre_writes
                if new_writes or len(ports) != pre_ports:
                    sent = [w for p in ports for w in p.write_attempts][-new_writes:]
                    viols.append((f"writes:{key_tail}", f"{where}{desc} on a {state_kind} object "
                                  f"handed {sent!r} to the port"))
                if exc is None and not is_failure_value(ret):
                    viols.append((f"value:{key_tail}", f"{where}{desc} on a {state_kind} object "
                                  f"returned {ret!r}, not a failure value"))
            else:
                # "recorded an error (... USB exception ...)": a port exception of any kind
                # during a request on a healthy object is one of the errors that latch.  The
                # reset/reboot/bootloader requests are exempt by design (the board leaves the
                # bus); C05 decides the return value, here only the latch is demanded.
                fired = [f for p in ports for f in p.faults][pre_faults:]
                raised = [f for f in fired if f[1] in ("write_exc", "read_exc")]
                # ... and so do a device error reply, an unexpected reply and a timeout
                refused = [f for f in fired if f[1] in ("content", "silent", "prefix") or
                           (f[1] == "latency" and f[2] >= 26)]
                sent = [w for p in ports for w in p.write_attempts][pre_writes:]
                last = sent[-1].decode("ascii", "replace") if sent else ""
                name = last.split(",")[0].strip().lower()
                # (the exemption is command()'s and the reboot / bootload helpers': a *query* by
                # one of these names gets no special treatment - its failure is recorded like
                # any other query's, C05)
                exempt = name in ("r", "rb", "bl") and method != "query"
                if raised and not exempt:
                    if exc is not None:
                        viols.append((f"escaped:{method}", f"{where}{desc}: the port raised "
                                      f"{raised[0][2]} and the request let {type(exc).__name__} "
                                      f"escape; err = {obj.err!r}"))
                    elif obj.err is None and obj.port is not None:
                        viols.append((f"unlatched:{method}", f"{where}{desc}: the port raised "
                                      f"{raised[0][2]} during {last!r} but no error was "
                                      f"recorded, later requests will transmit"))
                elif refused and exc is None and obj.err is None and obj.port is not None \
                        and not exempt:
                    what = ", ".join(f"{k}={v}" for _t, k, v in fired)
                    viols.append((f"unlatched:{method}", f"{where}{desc}: the board's answer to "
                                  f"{last!r} was faulty ({what}) but no error was recorded, "
                                  f"later requests will transmit"))
                elif refused and exc is not None and obj.err is None and obj.port is not None \
                        and not exempt:
                    what = ", ".join(f"{k}={v}" for _t, k, v in fired)
                    viols.append((f"escaped:{method}", f"{where}{desc}: the board's answer to "
                                  f"{last!r} was faulty ({what}); the request let "
                                  f"{type(exc).__name__} escape and recorded no error, later "
                                  f"requests will transmit"))
            history.append(desc)
        elif kind in ("disconnect", "disconnect_fault"):
            if kind == "disconnect_fault" and ports:
                ports[-1].fail_next_close = True        # closing the port raises
            _ret, exc = call(obj, "disconnect", ())
            if exc is not None or obj.port is not None:
                viols.append(("disconnect", f"{where}disconnect() raised {exc!r}; the object "
                              f"{'still holds its port' if obj.port is not None else 'dropped the port'}"))
            history.append("disconnect()")
        elif kind == "connect":
            env = step[1]
            with connect_env(_factory(env, chooser, ports)):
                ret, exc = call(obj, "connect", ("NoSuchBoard",) if env == "missingname" else ())
            if exc is not None:
                viols.append((f"connect_raise:{env}", f"{where}connect() [{env}] raised "
                              f"{type(exc).__name__}: {exc}"))
            elif env != "ok" and (ret is True or (obj.port is not None and obj.err is None)):
                # "unsupported firmware" (and a device that is no EBB, is silent, cannot be
                # opened or found) is one of the errors: the object must come out blocked -
                # whatever an earlier connection on the same object found out about its board
                viols.append((f"connect_accepted:{env}", f"{where}connect() [{env}] returned "
                              f"{ret!r} and left the object usable (err = {obj.err!r}, port "
                              f"{'open' if obj.port is not None else 'closed'})"))
            history.append(f"connect()[{env}]={ret!r}")
        # "... and then transmits nothing": bytes handed to the port after the first error was
        # latched, inside the very call that latched it, count as well
        if latched_at and len(latched_at) == 1:
            now = sum(len(p.write_attempts) for p in ports)
            if now > latched_at[0]:
                sent = [w for p in ports for w in p.write_attempts][latched_at[0] - now:]
                viols.append((f"after_latch:{history[-1].split('(')[0]}",
                              f"{where}{history[-1]}: {sent!r} was handed to the port after the "
                              f"error {obj.err!r} had been recorded"))
            latched_at.append(None)     # checked once, at the end of the step that latched
        # first-error-wins latch, evaluated after every step
        log = obj.__dict__.get("err_log", [])
        non_none = [v for v in log if v is not None]
        if non_none:
            first_at = next(k for k, v in enumerate(log) if v is not None)
            later = log[first_at + 1:]
            if obj.err != non_none[0] or any(v != non_none[0] for v in later):
                viols.append((f"latch:{history[-1].split('(')[0]}",
                              f"{where}{history[-1]}: the first recorded error {non_none[0]!r} "
                              f"was replaced (assignments to err: {log!r}, now {obj.err!r})"))
        if pre_err is not None and obj.err != pre_err:
            viols.append((f"latch:{history[-1].split('(')[0]}",
                          f"{where}{history[-1]}: recorded error changed from {pre_err!r} to "
                          f"{obj.err!r}"))
        states.append(canonical(obj, ports))
    leak = decoy_problem(decoy)
    if leak:
        viols.append(("isolation", f"after {history!r}: {leak}"))
    return viols, states, checked, obj


def _case(steps, vector):
    return {"kind": "history", "steps": [list(s) for s in steps], "vector": list(vector)}


def _steps_from_case(case):
    steps = []
    for step in case["steps"]:
        if step[0] == "op":
            label, method, args = step[1]
            steps.append(("op", (label, method, tuple(args))))
        else:
            steps.append(tuple(step))
    return steps


def _discover(args):
    """Phase 1: error states reachable from the healthy state by `prefix + op` under faults."""
    prefix_ops, op, bound = args
    steps = [("op", o) for o in prefix_ops] + [("op", op)]
    part = core.Part()
    found = {}
    stats = Stats()
    last_tag = f"s{len(steps) - 1}:"

    def run(chooser):
        viols, states, _checked, obj = run_history(chooser, steps)
        for key, msg in viols:
            part.violation(key, msg, _case(steps, chooser.vector()))
        part.count("transitions", len(steps))
        for state in states:
            part.add("states", core.digest(state))
        if obj.err is not None or obj.port is None:
            found.setdefault(core.digest(states[-1]), (steps, chooser.vector(), obj.err))
        return core.digest(states[-1])

    explore(run, bound, stats, may_branch=lambda label: label.startswith(last_tag))
    part.count("executions", stats.executions)
    part.count("faulted_executions", stats.executions - stats.by_deviations.get(0, 0))
    return part, found


def _probe_state(args):
    """Phases 2+3 from one blocked state: every op; disconnect/connect variants then every op."""
    steps, vector, ops = args
    part = core.Part()
    tails = [[]]
    tails.append([("disconnect",)])
    for env in CONNECT_ENVS:
        tails.append([("disconnect",), ("connect", env)])
    tails.append([("connect", "ok")])                   # connect without disconnecting first
    tails.append([("disconnect_fault",)])               # close() raising must not matter
    tails.append([("disconnect_fault",), ("connect", "ok")])
    tails.append([("disconnect_fault",), ("connect", "oldfw")])
    # one long blocked session: every operation in turn on the same latched object (a retry
    # counter, a guard that gives way after N refusals)
    runs = [list(steps) + [("op", op) for op in ops] + [("op", op) for op in ops[::-1]]]
    for tail in tails:
        for op in ops:
            runs.append(list(steps) + tail + [("op", op)])
    for full in runs:
        chooser = Chooser(vector)
        viols, states, checked, _obj = run_history(chooser, full)
        if len(chooser.trace) < len(vector):
            from ..explore import HarnessDivergence     # pylint: disable=import-outside-toplevel
            raise HarnessDivergence("history replay consumed fewer choices than recorded")
        for key, msg in viols:
            part.violation(key, msg, _case(full, chooser.vector()))
        part.count("transitions", len(full))
        part.count("blocked_transitions_checked", checked)
        part.count("executions")
        for state in states:
            part.add("states", core.digest(state))
    return part


def run(ctx):
    ops = operations()
    bound = ctx.pick(1, 2)
    jobs = [((), op, bound) for op in ops]
    if not ctx.thorough:
        # two deviations in one request (a late *and* wrong reply, a fault after an empty read)
        # for one representative of each kind of request
        deep = ("command", "query", "query_statusbyte", "xy_move", "pen_lower", "var_write",
                "var_read_int32", "write_nickname", "motors_enable", "query_steps")
        seen = set()
        for op in ops:
            if op[1] in deep and op[1] not in seen:
                seen.add(op[1])
                jobs.append(((), op, 2))
    if ctx.thorough:
        # two healthy operations before the faulted one (reduced prefix alphabet)
        prefixes = [op for op in ops if op[1] in ("motors_enable", "var_write", "write_nickname",
                                                  "pen_lower")][:5]
        jobs += [((pre,), op, 1) for pre in prefixes for op in ops]
    part = core.Part()
    blocked = {}
    import multiprocessing                              # pylint: disable=import-outside-toplevel
    if ctx.jobs > 1:
        with multiprocessing.get_context("fork").Pool(ctx.jobs) as pool:
            results = pool.map(_discover, jobs, chunksize=1)
    else:
        results = [_discover(j) for j in jobs]
    for sub, found in results:
        part.merge(sub)
        for key, val in found.items():
            blocked.setdefault(key, val)
    error_states = len(blocked)
    if error_states < len(ops):
        # not a verdict about the latch: if faults no longer lead to a recorded error the
        # premise of the property cannot be established (C05 decides that clause)
        raise RuntimeError(f"vacuous exploration: only {error_states} error-latched states were "
                           f"reached from {len(ops)} operations under fault injection")
    distinct_msgs = len({v[2] for v in blocked.values()})
    # not-connected states
    seeds = [([("never",)], []),
             ([("disconnect",)], []),
             ([("op", ("reboot()", "reboot", ()))], []),
             ([("op", ("bootload()", "bootload", ()))], []),
             ([("disconnect",), ("connect", "nonebb")], []),
             ([("disconnect",), ("connect", "openfail")], []),
             ([("disconnect",), ("connect", "silent")], []),
             ([("disconnect",), ("connect", "oldfw")], []),
             ([("disconnect",), ("connect", "versionless")], []),
             ([("disconnect",), ("connect", "missingname")], []),
             ([("never",), ("connect", "oldfw")], []),
             ([("never",), ("connect", "missingname")], []),
             ([("disconnect",), ("connect", "prerelease")], []),
             ([("never",), ("connect", "prerelease")], [])]
    work = [(steps, vector, ops) for (steps, vector, _err) in
            sorted(blocked.values(), key=lambda v: repr(v[:2]))]
    work += [(steps, vector, ops) for steps, vector in seeds]
    part.merge(core.fan_out(ctx, _probe_state, work))
    cnt = part.counters
    samples = [{"history": [s[1][0] if s[0] == "op" else s[0] for s in steps],
                "environment_vector": vector, "recorded_error": err}
               for (steps, vector, err) in core.rotate(
                   sorted(blocked.values(), key=lambda v: repr(v[:2])), ctx.seed, 4)]
    coverage = {
        "states": part.size("states"),
        "transitions": cnt.get("transitions", 0),
        "traces_validated_against_impl": cnt.get("executions", 0),
        "evaluations": cnt.get("transitions", 0),       # every executed transition is one case
        "distinct_nontrivial": cnt.get("blocked_transitions_checked", 0),
        "rule": "phase 1: every request method (introspected) from the healthy state under "
                "every environment vector with <= bound deviations -> blocked states; phase 2/3: "
                "from every blocked state (and 12 not-connected states) every method, then "
                "disconnect / connect(ok, non-EBB, open fails, silent, old firmware, version-less "
                "banner, name not found, without disconnect) and "
                "every method again, plus one long session running every method twice on the latched "
                "object; evaluations = executed transitions; non-trivial = transitions whose "
                "pre-state was error-latched "
                "or not connected (zero-write, failure-value, no-raise, latch invariants checked)",
        "samples": samples,
        "request_methods": sorted({op[1] for op in ops}),
        "operations": len(ops),
        "blocked_states_discovered": error_states,
        "distinct_error_messages": distinct_msgs,
        "deviation_bound_from_healthy": bound,
        "requests_also_explored_with_two_deviations": 10 if not ctx.thorough else len(ops),
        "max_history_depth": 4 + (1 if ctx.thorough else 0),
        "exhaustive": True,
    }
    assumptions = [
        "environment alphabet per I/O point: write raises (SerialException, SerialTimeoutException, PortNotOpenError, OSError, RuntimeError), board "
        "silent, reply late (1 or 26 empty reads), device error line, name+error line, wrong-name "
        "line, read raises at the first two reads of each request",
        "a blocked method that performs no I/O meets no choice point, so running blocked "
        "methods with faults armed adds no executions; write *attempts* are counted",
        "connect() handshake faults are explored by C15, here connect uses fault-free variants",
    ]
    return {"part": part, "coverage": coverage, "assumptions": assumptions}


def replay(case):
    steps = _steps_from_case(case)
    chooser = Chooser([tuple(v) for v in case["vector"]])
    viols, _states, _checked, _obj = run_history(chooser, steps)
    return [msg for _key, msg in viols]
