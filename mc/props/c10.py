"""C10 - Bezier subdivision refines the same curve until every piece is flat.

All node lists with 1, 2 (and 3) nodes whose control points lie on a small integer lattice
(loops, cusps, coincident ends, straight pieces by construction) x flatness values.  A
wrapper around beziersplitatt in plot_utils' namespace exposes every intermediate state;
each split transition must replace exactly one piece by its two exact de Casteljau halves
(midpoint splits of small integers are dyadic rationals, exact in binary floating point).
"""
import itertools
import math
import types
from fractions import Fraction as F

from .. import core
from ..geom import de_casteljau_half, sq_dist_point_segment

PROPERTY = "C10"
LATTICE = [(x, y) for x in range(3) for y in range(3)]
SUB = [(0, 0), (2, 0), (1, 1), (0, 2), (2, 2)]
SPLIT_BUDGET = 600         # explored inputs need < 100 splits (max is reported in the evidence)
OUT_A, OUT_B = (-7, 5), (9, -4)         # outer handles of the first / last node


class LoopBudget(Exception):
    pass


def _lib():
    from plotink import plot_utils          # pylint: disable=import-outside-toplevel
    return plot_utils


def snapshot(s_p):
    return tuple(tuple((F(pt[0]), F(pt[1])) for pt in node) for node in s_p)


def pieces(snap):
    return [(snap[i - 1][1], snap[i - 1][2], snap[i][0], snap[i][1]) for i in range(1, len(snap))]


def transition_ok(prev, cur):
    """cur must equal prev with exactly one piece replaced by its exact halves."""
    if len(cur) != len(prev) + 1:
        return f"node count went from {len(prev)} to {len(cur)}"
    before, after = pieces(prev), pieces(cur)
    k = 0
    while k < len(before) and before[k] == after[k]:
        k += 1
    if k == len(before):
        return "no piece changed"
    left, right = de_casteljau_half(before[k])
    if after[k] != left or after[k + 1] != right:
        return (f"piece {k} {_fl(before[k])} was replaced by {_fl(after[k])} + {_fl(after[k + 1])}, "
                f"its exact halves are {_fl(left)} + {_fl(right)}")
    if before[k + 1:] != after[k + 2:]:
        return "pieces after the split piece changed"
    # outer handles of untouched nodes
    if prev[0][0] != cur[0][0] or prev[-1][2] != cur[-1][2]:
        return "an outer handle changed"
    return None


def _fl(bez):
    return [tuple(float(v) for v in p) for p in bez]


MAX_DEPTH = 48      # 2^-48 of the parameter range: far below what any explored flatness needs


def consume(target, queue, depth=0):
    """Consume pieces from the front of `queue` that together are exactly `target`."""
    if queue and queue[0] == target:
        queue.pop(0)
        return True
    if not queue or depth >= MAX_DEPTH:
        return False
    # the next piece must start where target starts, and be a strict refinement
    if queue[0][0] != target[0]:
        return False
    left, right = de_casteljau_half(target)
    if left == target or right == target:       # degenerate (all four points equal)
        return False
    return consume(left, queue, depth + 1) and consume(right, queue, depth + 1)


def run_subdivide(nodes, flat, as_tuples=False, judge_curve=True, monitor=True, share=False):
    """nodes: tuple of (handle_in, point, handle_out) tuples.  Returns [(clause, msg)], splits.
    as_tuples: hand the points over as (x, y) tuples instead of [x, y] lists (the function
    itself inserts tuples, so both representations occur in its own intermediate states)."""
    plot_utils = _lib()
    conv = tuple if as_tuples else list
    if share:
        # equal points are one list object (a path built by copying references: a corner node
        # whose handles *are* its vertex, two handles meeting in one point): the function may
        # rebind the handles it owns, it must not write into a point it was given
        pool = {}
        conv = lambda pnt: pool.setdefault(tuple(pnt), list(pnt))      # noqa: E731
    s_p = [[conv(h_in), conv(pt), conv(h_out)] for (h_in, pt, h_out) in nodes]
    originals = list(s_p)
    start = snapshot(s_p)
    shown = [tuple(map(tuple, n)) for n in s_p[:80]]
    desc = (f"subdivideCubicPath({shown}, {flat})" if len(s_p) <= 80 else
            f"subdivideCubicPath(<{len(s_p)} nodes beginning {shown[:3]}>, {flat})") + \
        (" [points given as tuples]" if as_tuples else "") + \
        (" [equal points given as one shared list object]" if share else "")
    real_bezmisc = plot_utils.bezmisc
    states = [start]
    problems = []
    budget = SPLIT_BUDGET + 200 * max(len(nodes) - 2, 0)     # explored pieces need <= 19 splits each

    def split_hook(bez, par=0.5):
        snap = snapshot(s_p)
        if snap != states[-1]:
            # the per-split invariant is only evaluated where single splits are observable (an
            # implementation that splits elsewhere or batches its insertions is judged on the
            # final state alone - the property speaks about the result, not about the steps)
            why = transition_ok(states[-1], snap) if len(snap) == len(states[-1]) + 1 else None
            if why and len(problems) < 3:
                problems.append(("transition", f"{desc}: after split {len(states) - 1}: {why}"))
            states.append(snap)
        if len(states) > budget:
            raise LoopBudget()
        return real_bezmisc.beziersplitatt(bez, par)

    core.rejected(plot_utils.subdivideCubicPath, [[(0, 0), (0, 0), (1, 1)], [(2, 2)]], 0.5)
    if monitor:
        plot_utils.bezmisc = types.SimpleNamespace(beziersplitatt=split_hook)
    try:
        with core.watchdog(5.0 + 0.5 * len(nodes) if monitor else 120.0):
            ret = plot_utils.subdivideCubicPath(s_p, flat)
    except LoopBudget:
        return [("loop", f"{desc} made more than {budget} splits")], len(states)
    except core.CaseTimeout:
        return [("loop", f"{desc} did not return within 5 s")], len(states)
    except Exception as exc:                # pylint: disable=broad-except
        return [("raise", f"{desc} raised {type(exc).__name__}: {exc}")], len(states)
    finally:
        plot_utils.bezmisc = real_bezmisc
    out = list(problems)
    final = snapshot(s_p)
    if final != states[-1]:
        why = transition_ok(states[-1], final) if len(final) == len(states[-1]) + 1 else None
        if why:
            out.append(("transition", f"{desc}: last split: {why}"))
        states.append(final)
    if ret is not None:
        out.append(("ret", f"{desc} returned {ret!r}"))
    # original nodes survive, in order, by identity; points and outer handles intact
    pos = 0
    where = []
    for node in originals:
        while pos < len(s_p) and s_p[pos] is not node:
            pos += 1
        if pos == len(s_p):
            out.append(("identity", f"{desc}: an original node object did not survive in order"))
            return out, len(states) - 1
        where.append(pos)
        pos += 1
    if not where:
        if s_p:
            out.append(("identity", f"{desc}: nodes appeared in an empty list"))
        return out, len(states) - 1
    if where[0] != 0 or where[-1] != len(s_p) - 1:
        out.append(("identity", f"{desc}: nodes were added before the first / after the last node"))
    for k, idx in enumerate(where):
        if final[idx][1] != start[k][1]:
            out.append(("node_point", f"{desc}: original node {k} moved to {final[idx][1]}"))
    if final[0][0] != start[0][0] or final[-1][2] != start[-1][2]:
        out.append(("outer_handle", f"{desc}: outer handles changed"))
    # same curve: pieces between consecutive original nodes refine the original piece dyadically
    orig_pieces = pieces(start)
    fin_pieces = pieces(final)
    for k, target in enumerate(orig_pieces if judge_curve else []):
        queue = fin_pieces[where[k]:where[k + 1]]
        if not consume(target, queue) or queue:
            out.append(("same_curve", f"{desc}: the pieces between original nodes {k} and {k + 1} "
                        f"are not the original piece restricted to consecutive dyadic intervals: "
                        f"{[_fl(p) for p in fin_pieces[where[k]:where[k + 1]]][:4]}"))
    # flatness postcondition (strict, with a relative slack far below any mutant's effect)
    # "closer than the flatness" is strict.  Where flat (and hence flat^2, and on the lattice the
    # distances too) is exactly representable, an exact tie must have been split; elsewhere the
    # library can only compare rounded numbers and gets a relative slack far below any effect
    exact_flat = abs(flat) < 1 << 20 and float(flat) * 1024 == int(float(flat) * 1024)
    tol2 = F(flat) * F(flat) * (1 if exact_flat and judge_curve else 1 + F(1, 10 ** 9))
    for k, (p_0, p_1, p_2, p_3) in enumerate(fin_pieces):
        for inner in (p_1, p_2):
            dist2 = sq_dist_point_segment(inner, p_0, p_3)
            if not dist2 < tol2:
                out.append(("flat", f"{desc}: piece {k} {_fl((p_0, p_1, p_2, p_3))} has an inner "
                            f"control point at distance {float(dist2) ** 0.5} >= flatness {flat}"))
                break
    return out, len(states) - 1


def needle_node_lists():
    """Long, nearly straight pieces: chord 2^17 (axis-parallel) or 5 * 2^15 (along 3:4), inner
    control points m flatness-units off the chord, flatness about 4e-9 of the chord length.
    Everything is dyadic, so the distances are exact here - but a formula that subtracts two
    nearly equal squares has lost them.  Judged on flatness and node survival only (positions
    of inserted nodes need not be exact to the last bit at this dynamic range)."""
    out = []
    unit = 2.0 ** -13
    for (d_x, d_y), (n_x, n_y), flat in (((1 << 17, 0), (0, 1), unit),
                                         ((3 << 15, 4 << 15), (-4, 3), 5 * unit)):
        for m_1, m_2 in ((2.5, 2.5), (2.0, -2.0), (0.5, 3.0), (8.0, 0.0), (0.5, 0.5), (0.0, 2.5)):
            for t_1, t_2 in ((0.25, 0.75), (0.5, 0.5), (0.125, 0.25)):
                p_1 = (d_x * t_1 + n_x * m_1 * unit, d_y * t_1 + n_y * m_1 * unit)
                p_2 = (d_x * t_2 + n_x * m_2 * unit, d_y * t_2 + n_y * m_2 * unit)
                nodes = (((0.0, 0.0), (0.0, 0.0), p_1), (p_2, (float(d_x), float(d_y)),
                                                         (float(d_x), float(d_y))))
                out.append((nodes, flat))
        # a handle that pokes m flatness units *past* its own node (or starts behind the first
        # one): its distance to the chord is the distance to that end point
        for m_out in (0.5, 1.0, 1.5, 2.5, 8.0):
            beyond = (d_x + d_x * m_out * unit / (1 << 15 if d_y else 1 << 17),
                      d_y + d_y * m_out * unit / (1 << 15))
            behind = (-d_x * m_out * unit / (1 << 15 if d_y else 1 << 17),
                      -d_y * m_out * unit / (1 << 15))
            end = (float(d_x), float(d_y))
            out.append((((( 0.0, 0.0), (0.0, 0.0), (d_x * 0.25, d_y * 0.25)), (beyond, end, end)), flat))
            out.append(((((0.0, 0.0), (0.0, 0.0), behind), ((d_x * 0.75, d_y * 0.75), end, end)), flat))
            out.append(((((0.0, 0.0), (0.0, 0.0), (0.0, 0.0)), (beyond, end, end)), flat))
    return out


def deep_node_lists():
    """One strongly curved piece at a very fine flatness: the control polygon is ~6e9 flatness
    units off the chord, so about 2^16 pieces are needed and the left-most one is reached only
    after 16 halvings in a row (a cap on successive splits, a recursion budget).  Judged on
    flatness and node survival, without the per-split monitor."""
    arch = (((0.0, 0.0), (0.0, 0.0), (0.0, 1024.0)), ((1024.0, 1024.0), (1024.0, 0.0), (1024.0, 0.0)))
    return [(arch, 2.0 ** -23)]


def one_piece(ctrl):
    p_0, p_1, p_2, p_3 = ctrl
    return ((OUT_A, p_0, p_1), (p_2, p_3, OUT_B))


def two_pieces(pts):
    p_0, p_1, p_2, p_3, p_4, p_5, p_6 = pts
    return ((OUT_A, p_0, p_1), (p_2, p_3, p_4), (p_5, p_6, OUT_B))


def long_node_lists():
    """Node lists of 10..60 nodes chained from lattice points by a fixed modular pattern
    (index arithmetic over many pieces and many insertions)."""
    out = []
    for count in (10, 30, 60):
        for mult in ((3, 5, 7), (2, 7, 4)):
            out.append(tuple((LATTICE[(mult[1] * k + 1) % 9], LATTICE[(mult[0] * k) % 9],
                              LATTICE[(mult[2] * k + 2) % 9]) for k in range(count)))
    return out


def landing_node_lists():
    """Pieces whose first halving puts the new node exactly on top of a node that is already in
    the list - same three points, a different object: the hairpin whose control points lie at
    9 : -4 : 1 : 0 along one direction from its end node passes through that node at t = 1/2, and
    if the node's outer handle is the mirror image (-1/2) the inserted node equals it in value.
    Also the mirror case at the start node, other outer handles, and the hairpin alone, first,
    last or in the middle of a list.  Whoever recognises nodes by their value stops (or starts)
    at the wrong one."""
    out = []
    for d_x, d_y in ((2, 4), (4, 0), (0, -2), (-2, 2), (6, -2), (-4, -8)):
        for o_x, o_y in ((0, 0), (10, 5)):
            def rel(mult, d_x=d_x, d_y=d_y, o_x=o_x, o_y=o_y):
                return (o_x + mult * d_x, o_y + mult * d_y)
            plain_before = [(rel(20), rel(20), rel(16))]
            plain_after = [(rel(-2), rel(-6), rel(-6))]
            for outer in (-0.5, 0, 1, 0.5):
                # ends on its own end node: the end node's outer handle is rel(outer)
                hair_end = [(rel(9), rel(9), rel(-4)), (rel(1), rel(0), rel(outer))]
                # starts on its own start node: the start node's incoming handle is rel(outer)
                hair_start = [(rel(outer), rel(0), rel(1)), (rel(-4), rel(9), rel(9))]
                for hair in (hair_end, hair_start):
                    out.append(tuple(hair))
                    out.append(tuple([(rel(12), rel(12), rel(11))] + hair[:1] + hair[1:]))
                    out.append(tuple(hair + plain_after))
                    out.append(tuple(plain_before + hair))
                    out.append(tuple(plain_before + hair + plain_after))
    return out


def crowd_node_lists(thorough):
    """The same chained pattern at sizes around the powers of two a list-length threshold
    would pick (255..257, 511..513, 1025, 1300; thorough 4097): work done per block of
    nodes, a seam between blocks.  Judged on the final list, without the per-split monitor."""
    out = []
    harvested = set()
    for const in core.harvest_ints(_lib(), low=8, high=2500):
        harvested |= {const - 1, const, const + 1, 2 * const + 1}
    for count in sorted(set((255, 256, 257, 511, 512, 513, 1025, 1300) +
                            ((4097,) if thorough else ())) | harvested):
        mult = (3, 5, 7) if count % 2 else (2, 7, 4)
        out.append(tuple((LATTICE[(mult[1] * k + 1) % 9], LATTICE[(mult[0] * k) % 9],
                          LATTICE[(mult[2] * k + 2) % 9]) for k in range(count)))
    return out


# (scale, shift): a big copy, and the *same-sized* curve two thousand million units from the
# origin - there every coordinate-relative notion of "equal" (math.isclose, 1e-9 * |x|) is
# coarser than the curve itself, while all the arithmetic that matters stays exact
SIMILARITIES = [(1 << 16, (1 << 20, -(1 << 21))), (1, (1 << 31, -(1 << 30))),
                (2.0 ** 200, (0, 0)), (2.0 ** -200, (0, 0))]      # ... and the same curve in absurd units


def transformed(nodes, scale, shift):
    return tuple(tuple((pt[0] * scale + shift[0], pt[1] * scale + shift[1]) for pt in node)
                 for node in nodes)


def check_similarity(nodes, flat):
    """Subdivision commutes with scaling by a power of two and translation by large dyadic
    offsets (all arithmetic stays exact): the result for the transformed curve must be the
    transformed result - same number of nodes, same points.  Large coordinates are where a
    numerically careless flatness test loses its digits."""
    plot_utils = _lib()
    out = []
    for scale, shift in SIMILARITIES:
        base = [[list(h_in), list(pt), list(h_out)] for (h_in, pt, h_out) in nodes]
        big = [[list(p) for p in node] for node in transformed(nodes, scale, shift)]
        try:
            with core.watchdog(10.0):
                plot_utils.subdivideCubicPath(base, flat)
                plot_utils.subdivideCubicPath(big, flat * scale)
        except core.CaseTimeout:
            return [("loop", f"subdivideCubicPath on {nodes} x {scale} + {shift} did not return")]
        except Exception as exc:            # pylint: disable=broad-except
            return [("raise", f"subdivideCubicPath on {nodes} x {scale} + {shift} raised {exc!r}")]
        want = snapshot([[list(p) for p in node] for node in transformed(
            tuple(tuple(tuple(p) for p in node) for node in base), scale, shift)])
        got = snapshot(big)
        # same nodes; positions to within 64 units in the last place of the largest coordinate
        # (an implementation is not obliged to be exact to the bit that far out)
        room = 64 * math.ulp(float(max(abs(v) for node in want for pt in node for v in pt)))
        same = len(got) == len(want) and all(
            abs(a - b) <= room for g_n, w_n in zip(got, want) for g_p, w_p in zip(g_n, w_n)
            for a, b in zip(g_p, w_p))
        if not same:
            out.append(("similarity", f"subdivideCubicPath({[tuple(map(tuple, n)) for n in nodes]}, "
                        f"{flat}) gives {len(base)} nodes; the same curve scaled by {scale} and "
                        f"shifted by {shift} with flatness {flat * scale} gives {len(big)} nodes "
                        f"that are not its image"))
            break
    return out


def _similar_chunk(args):
    items, flats = args
    part = core.Part()
    for item in items:
        nodes = one_piece(item)
        for flat in flats:
            for clause, msg in check_similarity(nodes, flat):
                part.violation(f"{clause}:sim:{item}:{flat}", msg,
                               {"kind": "similar", "nodes": [[list(p) for p in n] for n in nodes],
                                "flat": flat})
            part.count("calls", 2 * len(SIMILARITIES))
            part.count("similarity_cases", len(SIMILARITIES))
    return part


def run_giant(size, flat):
    """One arch `size` units across at flatness `flat`: close to a million pieces.  A list that
    long is judged in floating point with a guard band (a piece is reported only when an inner
    control point is clearly - by more than one part in a million - farther than the flatness
    from its chord) and on the survival of the two original nodes; returns ([message], pieces)."""
    plot_utils = _lib()
    first = [[0.0, 0.0], [0.0, 0.0], [0.0, size]]
    last = [[size, size], [size, 0.0], [size, 0.0]]
    s_p = [first, last]
    desc = f"subdivideCubicPath(<one arch {size} units across>, {flat})"
    try:
        with core.watchdog(300.0):
            plot_utils.subdivideCubicPath(s_p, flat)
    except core.CaseTimeout:
        return [f"{desc} did not return within 300 s"], 0
    except Exception as exc:                # pylint: disable=broad-except
        return [f"{desc} raised {type(exc).__name__}: {exc}"], 0
    out = []
    if s_p[0] is not first or s_p[-1] is not last or list(first[1]) != [0.0, 0.0] or \
            list(last[1]) != [size, 0.0]:
        out.append(f"{desc}: the original end nodes did not survive in place")
    limit = flat * flat * (1 + 1e-6)
    worst = 0.0
    bad_pieces = 0
    for k in range(len(s_p) - 1):
        (x_0, y_0), (x_3, y_3) = s_p[k][1], s_p[k + 1][1]
        d_x, d_y = x_3 - x_0, y_3 - y_0
        len2 = d_x * d_x + d_y * d_y
        for p_x, p_y in (s_p[k][2], s_p[k + 1][0]):
            r_x, r_y = p_x - x_0, p_y - y_0
            par = (r_x * d_x + r_y * d_y) / len2 if len2 else 0.0
            par = 0.0 if par < 0 else (1.0 if par > 1 else par)
            e_x, e_y = r_x - par * d_x, r_y - par * d_y
            dist2 = e_x * e_x + e_y * e_y
            if dist2 > limit:
                bad_pieces += 1
                worst = max(worst, dist2)
    if bad_pieces:
        out.append(f"{desc}: of {len(s_p) - 1} pieces, {bad_pieces} inner control points are farther "
                   f"than the flatness from their chord (worst {worst ** 0.5})")
    return out, len(s_p) - 1


def _giant_chunk(items):
    part = core.Part()
    for size, flat in items:
        bad, n_pieces = run_giant(size, flat)
        part.count("calls")
        part.count("nontrivial")
        part.count("states", n_pieces)
        part.count("transitions", n_pieces)
        part.counters["max_pieces_in_one_call"] = n_pieces
        for msg in bad:
            part.violation(f"giant:{size}:{flat}", msg, {"kind": "giant", "size": size, "flat": flat})
    return part


def _chunk(args):
    if args[0] == "giant":
        return _giant_chunk(args[1])
    if args[0] == "similar":
        return _similar_chunk(args[1:])
    kind, items, flats = args
    part = core.Part()
    for item in items:
        as_tuples = kind in ("one_t", "raw_t")
        nodes = one_piece(item) if kind in ("one", "one_t") else \
            (two_pieces(item) if kind == "two" else item)
        if kind in ("needle", "deep"):
            nodes, flats = item[0], [item[1]]
        tag = item if kind != "crowd" else f"{len(item)} nodes"
        for flat in flats:
            bad, splits = run_subdivide(nodes, flat, as_tuples,
                                        judge_curve=kind not in ("needle", "deep"),
                                        monitor=kind not in ("deep", "crowd"))
            part.count("calls")
            part.count("states", splits + 1)
            part.count("transitions", max(splits, 1))
            if splits:
                part.count("nontrivial")
            part.counters["max_splits"] = max(part.counters.get("max_splits", 0), splits)
            flat_pts = [tuple(p) for n in nodes for p in n]
            if kind in ("one", "two", "raw") and flat in (0.3, 1.0) and \
                    len(set(flat_pts)) < len(flat_pts):
                shared_bad, _n = run_subdivide(nodes, flat, share=True)
                part.count("calls")
                part.count("shared_object_calls")
                for clause, msg in shared_bad:
                    part.violation(f"{clause}:{kind}:{tag}:{flat}:shared", msg,
                                   {"kind": "curve", "nodes": [[list(p) for p in n] for n in nodes],
                                    "flat": flat, "share": True})
            for clause, msg in bad:
                part.violation(f"{clause}:{kind}:{tag}:{flat}", msg,
                               {"kind": "curve", "nodes": [[list(p) for p in n] for n in nodes],
                                "flat": flat, "as_tuples": as_tuples,
                                "judge_curve": kind not in ("needle", "deep"),
                                "monitor": kind not in ("deep", "crowd")})
    if items:
        mid = items[len(items) // 2]
        part.sample({"family": kind, "control_points": [list(p) for p in mid] if kind not in ("raw", "needle", "deep", "crowd")
                     else str(mid)[:300], "flatness": list(flats)}, limit=1)
    return part


def run(ctx):
    # 1.2 and 2.5 sit between the lattice's control-polygon spans (1, 2) and their diagonals
    # (1.41, 2.83): a bounding-box shortcut and the true distance test disagree exactly there
    flats = [0.05, 0.3, 1.0, 1.2, 2.5, 3.0]
    seed_flat = [0.1, 0.2, 0.5, 0.7, 2.0][ctx.seed % 5]
    flats.append(seed_flat)
    if ctx.thorough:
        flats.append(0.01)
    jobs = []
    ones = list(itertools.product(LATTICE, repeat=4))
    for chunk in core.split(ones, 48):
        jobs.append(("one", chunk, flats))
    for chunk in core.split(ones, 32):
        jobs.append(("one_t", chunk, [0.3, 1.0]))       # the same curves, points as tuples
    twos = list(itertools.product(SUB, repeat=7))
    if not ctx.thorough:
        twos = twos[::9]
    for chunk in core.split(twos, 48):
        jobs.append(("two", chunk, [0.3, 1.0] if not ctx.thorough else [0.05, 0.3, 1.0]))
    single = [(((0, 0), (1, 1), (2, 2)),), ()]
    jobs.append(("raw", single, flats))
    for nodes in long_node_lists():
        jobs.append(("raw", [nodes], [0.3, 1.0]))
    # flatness values whose square is not a finite float: everything is flat, nothing to do
    for nodes in long_node_lists()[:2] + [one_piece(((0, 0), (0, 2), (2, 2), (2, 0)))]:
        jobs.append(("raw", [nodes], [2.0 ** 511, 2.0 ** 512, 1e200, 1e300, 1.7976931348623157e308]))
    for nodes in crowd_node_lists(ctx.thorough):
        jobs.append(("crowd", [nodes], [0.3, 1.0]))
    for chunk in core.split(landing_node_lists(), 8):
        jobs.append(("raw", chunk, [0.25, 0.05, 1.0]))
        jobs.append(("raw_t", chunk, [0.25, 0.05, 1.0]))   # (x, y) tuples equal the inserted ones
    for chunk in core.split(ones[::ctx.pick(5, 1)], 16):
        jobs.append(("similar", chunk, [0.3, 1.0]))
    jobs.append(("needle", needle_node_lists(), None))
    jobs.insert(0, ("deep", deep_node_lists(), None))       # the long one first
    # close to a million pieces from one call (a guard on the total size of the result)
    jobs.insert(0, ("giant", [(5.0e8, 1.0e-3)], None))
    part = core.fan_out(ctx, _chunk, jobs)
    from .. import callforms              # pylint: disable=import-outside-toplevel
    part.merge(callforms.explore("C10"))
    cnt = part.counters
    coverage = {
        "states": cnt.get("states", 0),
        "transitions": cnt.get("transitions", 0),
        "traces_validated_against_impl": cnt.get("calls", 0),
        "evaluations": cnt.get("calls", 0),
        "distinct_nontrivial": cnt.get("nontrivial", 0),
        "rule": "all one-piece curves with 4 control points on the 3x3 lattice (6561) x flatness "
                f"{flats}; two-piece node lists over a 5-point sub-lattice (5^7, every 9th in "
                "quick); the one-piece curves again with points given as tuples (flatness 0.3, 1.0); "
                "every lattice curve with a repeated point again with equal points given as one shared "
                "list object (flatness 0.3, 1.0); empty and single-node lists; six chained lists of 10..60 nodes; eight (thorough nine) of "
                "255, 256, 257, 511, 512, 513, 1025, 1300 (4097) nodes; every 5th "
                "one arch 5e8 units across at flatness 1e-3 (about 900 000 pieces, judged in floating point with a guard band); one strongly curved piece at flatness 2^-23 (about 2^16 pieces, 16 halvings in a row); 36 x 2 long nearly straight pieces (flatness 4e-9 of the chord, control points 0.5..8 flatness units off it); (thorough: every) one-piece curve again unscaled but shifted by (2^31, -2^30), and scaled by 2^16 and shifted by (2^20, "
                "-2^21), which must give the image of the unscaled result; states = node lists observed after every "
                "split; non-trivial = calls that split at least once; all inputs distinct",
        "samples": core.rotate(part.samples, ctx.seed, 4),
        "max_splits_in_one_call": cnt.get("max_splits", 0),
        "similarity_cases": cnt.get("similarity_cases", 0),
        "exhaustive": True,
    }
    assumptions = ["lattice coordinates are small integers, so every midpoint is a dyadic rational "
                   "and the float computation is exact; flatness compared with 1e-9 relative slack",
                   "flatness values so small that flat^2 underflows are not covered"]
    coverage["rule"] += ('; 480 node lists whose first halving inserts a node equal in value to an existing node (hairpins 9 : -4 : 1 : 0 at the end or the start node, four outer handles, alone / first / last / middle), points as lists and as tuples, flatness 0.25, 0.05, 1.0')
    return {"part": part, "coverage": coverage, "assumptions": assumptions}


def replay(case):
    if case.get("kind") == "callform":
        from .. import callforms          # pylint: disable=import-outside-toplevel
        return callforms.replay(case)
    if case["kind"] == "giant":
        return run_giant(case["size"], case["flat"])[0]
    nodes = tuple(tuple(tuple(p) for p in n) for n in case["nodes"])
    if case["kind"] == "similar":
        return [m for _c, m in check_similarity(nodes, case["flat"])]
    return [m for _c, m in run_subdivide(nodes, case["flat"], case.get("as_tuples", False),
                                         case.get("judge_curve", True), case.get("monitor", True),
                                         case.get("share", False))[0]]
