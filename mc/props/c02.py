"""C02 - T3 (jerk) move prediction equals the third-order firmware recurrence.

The T3 machine is stepped from every initial state of a boundary lattice (with rows
*constructed* so that the rate is zero at tick 1, at ticks 1-2 and at ticks 1-3, to reach
all three levels of the clear rule); at every visited state move_dist_t3 and rate_t3 of the
real library are compared with the machine.
"""
import itertools

from .. import core
from ..firmware import (RATE_MAX, TWO31, split31, t3_clear_value, t3_in_domain, t3_rate_closed,
                        t3_states, t3_total_closed, trunc_div)

PROPERTY = "C02"
P26, P27, P29, P30, P31 = 1 << 26, 1 << 27, 1 << 29, 1 << 30, 1 << 31


def _pm(values):
    out = set()
    for val in values:
        out.add(val)
        out.add(-val)
    return out


def alphabets(ctx):
    rate = _pm([0, 1, 2, P29, P30 + 1, P31 - 1, 123456789])
    accel = _pm([0, 1, 2, 3, 5, 6, 7, P27, P27 + 1, 50353403, P30, P30 + 1])
    jerk = _pm([0, 1, 2, 3, 4, 5, 6, 7, 9, 11, 12, 13, 15, 400000, P26, P26 + 1, P26 + 5, P29,
                P29 + 3])
    accum = [core.RUNTIME_CLEAR, 0, 1, P31 - 1]
    ticks = 24
    extra = 2
    if ctx.thorough:
        rate |= _pm([3, 1 << 16, (1 << 24) + 1, P30, P31 - 2])
        accel |= _pm([4, 9, 1 << 16, (1 << 24) - 1, P29])
        jerk |= _pm([8, 10, 14, 17, 18, 21, 1 << 16, (1 << 20) + 3])
        accum += [P30, 2]
        ticks = 96
        extra = 4
    rate |= set(core.seeded_ints(ctx.seed, "c02.rate", extra, 31))
    accel |= set(core.seeded_ints(ctx.seed, "c02.accel", extra, 30))
    jerk |= set(core.seeded_ints(ctx.seed, "c02.jerk", extra, 28))
    clip = lambda vals: sorted(v for v in vals if abs(v) <= RATE_MAX)     # noqa: E731
    return clip(rate), clip(accel), clip(jerk), accum, ticks


def rate_for_zero_first_tick(accel, jerk):
    """Start rate that makes the machine's rate exactly 0 at tick 1."""
    return trunc_div(accel, 2) - trunc_div(jerk, 6) - accel


def zero_rows(accels, jerks, accums):
    """Rows hitting every level of the clear rule."""
    rows = set()
    for accel, jerk in itertools.product(accels, jerks):
        rows.add((rate_for_zero_first_tick(accel, jerk), accel, jerk))        # rate_1 == 0
    for accel in accels:
        jerk = -accel                                                         # rate_2 == 0 too
        rows.add((rate_for_zero_first_tick(accel, jerk), accel, jerk))
    for jerk in jerks:
        accel = -jerk
        if abs(accel) <= RATE_MAX:
            rows.add((rate_for_zero_first_tick(accel, jerk), accel, jerk))
    rows.add((0, 0, 0))
    return [(r, a, j, c) for (r, a, j) in sorted(rows) if abs(r) <= RATE_MAX for c in accums]


def edge_rows(accums, max_ticks):
    """Rows whose per-tick rate touches an end of the signed 32-bit range - 2^31-1 or -2^31,
    which is valid and has no positive counterpart - exactly at tick h, from inside."""
    shapes = [(0, 0), (-1000, 0), (1000, 0), (7, -3), (-7, 3), (-195741, 93626), (195741, -93626),
              (-3, 0), (0, -1), (0, 1), (1 << 20, -(1 << 15)), (-(1 << 20), 1 << 15)]
    rows = set()
    for target in (RATE_MAX, -TWO31):
        for hit in sorted({1, 2, 3, 5, 7, 10, max_ticks}):
            for accel, jerk in shapes:
                rate = target - accel * hit - jerk * hit * (hit - 1) // 2 + \
                    trunc_div(accel, 2) - trunc_div(jerk, 6)
                assert t3_rate_closed(rate, accel, jerk, hit) == target
                if -TWO31 <= rate <= RATE_MAX and t3_in_domain(rate, accel, jerk, hit):
                    rows.add((rate, accel, jerk))
    return [(r, a, j, c) for (r, a, j) in sorted(rows) for c in accums]


LONG_T = [1000, 19512, (1 << 16) + 1, 1 << 20, (1 << 24) + 1]
CONFIGS = [("dps", 1), ("dps", 15), ("dps", 100), ("prec", 20)]
CONFIG_TICKS = (1, 2, 3, 17)


def _lib():
    from plotink import ebb_calc            # pylint: disable=import-outside-toplevel
    import mpmath                           # pylint: disable=import-outside-toplevel
    return ebb_calc, mpmath


def _set_ambient(mpmath, config):
    if config is None:
        mpmath.mp.prec = 53
    elif config[0] == "dps":
        mpmath.mp.dps = config[1]
    else:
        mpmath.mp.prec = config[1]


def check_case(rate, accel, jerk, ticks, accum, config, total, rate_k):
    ebb_calc, mpmath = _lib()
    out = []
    want = split31(total)
    desc = f"T={ticks} rate={rate} accel={accel} jerk={jerk} accum={accum} ambient={config}"
    _set_ambient(mpmath, config)
    try:
        got = ebb_calc.move_dist_t3(ticks, rate, accel, jerk, accum)
    except Exception as exc:                # pylint: disable=broad-except
        out.append(("move_dist_t3", f"move_dist_t3({desc}) raised {exc!r}"))
    else:
        if tuple(got) != want or not all(isinstance(v, int) for v in got):
            out.append(("move_dist_t3", f"move_dist_t3({desc}) = {got!r}, firmware recurrence "
                        f"gives {want!r}"))
    _set_ambient(mpmath, config)
    try:
        got_rate = ebb_calc.rate_t3(ticks, rate, accel, jerk)
    except Exception as exc:                # pylint: disable=broad-except
        out.append(("rate_t3", f"rate_t3({desc}) raised {exc!r}"))
    else:
        if got_rate != rate_k:
            out.append(("rate_t3", f"rate_t3({desc}) = {got_rate!r}, recurrence rate at tick "
                        f"{ticks} is {rate_k}"))
    if jerk == 0:
        _set_ambient(mpmath, config)
        try:
            got_lt = ebb_calc.move_dist_lt(rate, accel, ticks, accum)
        except Exception as exc:            # pylint: disable=broad-except
            out.append(("zero_jerk", f"move_dist_lt({desc}) raised {exc!r}"))
        else:
            if tuple(got_lt) != want:
                out.append(("zero_jerk", f"zero jerk: move_dist_lt({desc}) = {got_lt!r} but the "
                            f"T3 recurrence gives {want!r}"))
    return out


def _case(rate, accel, jerk, ticks, accum, config):
    return {"kind": "t3", "rate": rate, "accel": accel, "jerk": jerk, "ticks": ticks,
            "accum": accum, "config": list(config) if config else None}


def _rows_chunk(args):
    rows, max_ticks = args
    part = core.Part()
    _calc, mpmath = _lib()
    saved = mpmath.mp.prec
    for rate, accel, jerk, accum in rows:
        visited = 0
        for k, rate_k, _accel_k, total in t3_states(rate, accel, jerk, accum, max_ticks):
            visited += 1
            if t3_total_closed(rate, accel, jerk, accum, k) != total or \
                    t3_rate_closed(rate, accel, jerk, k) != rate_k:
                raise AssertionError("reference closed form disagrees with the stepped machine")
            part.count("model_conformance_checks")
            configs = [None]
            if k in CONFIG_TICKS and (rate + accel + jerk) % 4 == 0:
                configs += CONFIGS
            for config in configs:
                bad = check_case(rate, accel, jerk, k, accum, config, total, rate_k)
                part.count("impl_calls", 3 if jerk == 0 else 2)
                if config is not None:
                    part.count("ambient_config_cases")
                for clause, msg in bad:
                    part.violation(f"{clause}:{rate},{accel},{jerk},{k},{accum},{config}", msg,
                                   _case(rate, accel, jerk, k, accum, config))
            if not 0 <= total < TWO31:
                part.count("nontrivial")
        part.count("states", visited)
        part.count("rows")
        if visited:
            part.count("rows_in_domain")
            if accum == "clear":
                level = _clear_level(rate, accel, jerk)
                part.count(f"clear_rule_level_{level}_rows")
                if t3_clear_value(rate, accel, jerk):
                    part.count("clear_to_max_rows")
            part.sample({"rate": rate, "accel": accel, "jerk": jerk, "accum": accum,
                         "ticks_stepped": visited,
                         "final": list(split31(t3_total_closed(rate, accel, jerk, accum, visited)))},
                        limit=2)
    mpmath.mp.prec = saved
    return part


def _clear_level(rate, accel, jerk):
    """Which tick (1, 2, 3) decided the clear value; 4 = all three rates were zero."""
    rate_k = rate - trunc_div(accel, 2) + trunc_div(jerk, 6)
    accel_k = accel
    for level in (1, 2, 3):
        rate_k += accel_k
        accel_k += jerk
        if rate_k != 0:
            return level
    return 4


def long_rows(rates, accums):
    rows = []
    small = [0, 1, -1, 2, -3, 7, -12]
    for ticks in LONG_T:
        for rate in rates:
            accs = set(small) | {(RATE_MAX - abs(rate)) // ticks, -((RATE_MAX - abs(rate)) // ticks),
                                 -(2 * rate) // ticks}
            for accel in sorted(accs):
                jerks = set(small) | {-(2 * accel) // ticks, (-(2 * accel) // ticks) + 1,
                                      (4 * abs(rate)) // (ticks * ticks) + 1,
                                      -((4 * abs(rate)) // (ticks * ticks) + 1)}
                for jerk in sorted(jerks):
                    if not t3_in_domain(rate, accel, jerk, ticks):
                        continue
                    for accum in accums:
                        rows.append((rate, accel, jerk, ticks, accum))
                    # start accumulators that make the move end exactly one count below, on and
                    # one count above a step boundary, millions of steps out (the quotient
                    # total / 2^31 then needs more than 53 bits)
                    base = t3_total_closed(rate, accel, jerk, 0, ticks)
                    for target in (TWO31 - 1, TWO31 - 2, 0, 1):
                        rows.append((rate, accel, jerk, ticks, (target - base) % TWO31))
    return rows


def _long_chunk(rows):
    part = core.Part()
    _calc, mpmath = _lib()
    saved = mpmath.mp.prec
    for rate, accel, jerk, ticks, accum in rows:
        total = t3_total_closed(rate, accel, jerk, accum, ticks)
        rate_k = t3_rate_closed(rate, accel, jerk, ticks)
        for config in [None] + CONFIGS:
            bad = check_case(rate, accel, jerk, ticks, accum, config, total, rate_k)
            part.count("impl_calls", 3 if jerk == 0 else 2)
            if config is not None:
                part.count("ambient_config_cases")
            for clause, msg in bad:
                part.violation(f"{clause}:{rate},{accel},{jerk},{ticks},{accum},{config}", msg,
                               _case(rate, accel, jerk, ticks, accum, config))
        part.count("long_moves")
        if not 0 <= total < TWO31:
            part.count("nontrivial")
    mpmath.mp.prec = saved
    return part


def run(ctx):
    rates, accels, jerks, accums, max_ticks = alphabets(ctx)
    rows = set(itertools.product(rates, accels, jerks, accums))
    rows |= set(zero_rows(accels, jerks, accums))
    edges = edge_rows(accums, max_ticks)
    rows |= set(edges)
    rows = sorted(rows, key=repr)
    chunks = [(chunk, max_ticks) for chunk in core.split(rows, 128)]
    part = core.fan_out(ctx, _rows_chunk, chunks)
    longs = long_rows(rates, accums)
    part.merge(core.fan_out(ctx, _long_chunk, core.split(longs, 32)))
    from .. import calcseq                 # pylint: disable=import-outside-toplevel
    part.merge(calcseq.explore(ctx, ['move_dist_t3', 'rate_t3']))
    cnt = part.counters
    states = cnt.get("states", 0) + cnt.get("long_moves", 0)
    coverage = {
        "states": states,
        "transitions": states,
        "traces_validated_against_impl": cnt.get("impl_calls", 0),
        "evaluations": cnt.get("impl_calls", 0),
        "distinct_nontrivial": cnt.get("nontrivial", 0),
        "rule": "T3 machine stepped from every (rate, accel, jerk, accumulator|clear) of the "
                "boundary lattice plus constructed zero-rate rows and rows that touch 2^31-1 or -2^31 "
                "exactly at a chosen tick, up to max_ticks ticks inside "
                "the domain; move_dist_t3 and rate_t3 (and move_dist_lt on zero-jerk rows) "
                "called at every visited state; non-trivial = accumulator total outside "
                "[0,2^31); all tuples distinct",
        "samples": core.rotate(part.samples, ctx.seed, 4),
        "rows": cnt.get("rows", 0),
        "rows_in_domain": cnt.get("rows_in_domain", 0),
        "range_edge_rows": len(edges),
        "max_ticks": max_ticks,
        "long_moves": cnt.get("long_moves", 0),
        "ambient_config_cases": cnt.get("ambient_config_cases", 0),
        "clear_rule_rows_by_deciding_tick": {k: v for k, v in sorted(cnt.items())
                                             if k.startswith("clear_rule_level_")},
        "clear_to_max_rows": cnt.get("clear_to_max_rows", 0),
        "model_conformance_checks": cnt.get("model_conformance_checks", 0),
        "alphabet_sizes": {"rate": len(rates), "accel": len(accels), "jerk": len(jerks),
                           "accum": len(accums)},
        "call_histories_siblings_then_twice": cnt.get("calc_histories", 0),
        "exhaustive": True,
    }
    assumptions = [
        "the firmware recurrence is the one in the property statement (mc/firmware.py); domain "
        "= |rate_k| and |accel_k| <= 2^31-1 at every tick",
        "exhaustive over the stated lattice only",
    ]
    return {"part": part, "coverage": coverage, "assumptions": assumptions}


def replay(case):
    if str(case.get("kind")).startswith("calc_"):
        from .. import calcseq             # pylint: disable=import-outside-toplevel
        return calcseq.replay(case)
    rate, accel, jerk = case["rate"], case["accel"], case["jerk"]
    ticks, accum = case["ticks"], case["accum"]
    config = tuple(case["config"]) if case.get("config") else None
    if not t3_in_domain(rate, accel, jerk, ticks):
        return []
    total = t3_total_closed(rate, accel, jerk, accum, ticks)
    rate_k = t3_rate_closed(rate, accel, jerk, ticks)
    _calc, mpmath = _lib()
    saved = mpmath.mp.prec
    try:
        return [m for _c, m in check_case(rate, accel, jerk, ticks, accum, config, total, rate_k)]
    finally:
        mpmath.mp.prec = saved
