"""C19 - port discovery picks only EiBotBoards, in enumeration order, and finds by name.

All ordered lists of 0..4 (thorough 5) enumerated ports over a 16-descriptor alphabet x
lookup names derived from the list itself (every reported name, serial tag and port name in
three casings), through both layers with the enumerator replaced by a stub.
"""
import itertools
import re

from .. import core
from ..fakeserial import PortInfo, patched

PROPERTY = "C19"
VIDPID = "USB VID:PID=04D8:FD92"

DESCRIPTORS = [
    ("/dev/cu.usbmodem1", "EiBotBoard,East", VIDPID + " SER=East LOCATION=20-2"),
    ("/dev/ttyACM0", "EiBotBoard", VIDPID + " LOCATION=1-1"),
    ("COM4", "USB Serial Device (COM4)", VIDPID + " SER=MyAxi LOCATION=1-2"),
    ("COM5", "USB Serial Device (COM5)", VIDPID + " SER=AB LOCATION=1-3"),
    ("COM6", "USB Serial Device (COM6)", VIDPID + " SNR=OldOne"),
    ("/dev/ttyACM3", "ttyACM3", VIDPID),
    ("/dev/ttyUSB0", "FT232R USB UART", "USB VID:PID=0403:6001 SER=A6008isP LOCATION=1-4"),
    ("/dev/ttyUSB1", "East Coast Widget (COM9)", "USB VID:PID=1234:5678 SER=Widget7"),
    ("/dev/cu.usbmodem2", "EiBotBoard,Eastern", VIDPID + " SER=Eastern LOCATION=20-3"),
    ("/dev/CU.USBMODEM9", "EiBotBoard,West", VIDPID + " SER=West LOCATION=20-4"),
    # names with a blank in them (the nickname may hold any text up to 16 characters)
    ("/dev/ttyACM5", "EiBotBoard", VIDPID + " SER=North Rig LOCATION=1-5"),
    ("COM7", "USB Serial Device (COM7)", VIDPID + " SER=South Rig LOCATION=1-6"),
    ("/dev/cu.usbmodem5", "EiBotBoard,Big Bot", VIDPID + " SER=Big Bot LOCATION=20-5"),
    # named in the description only (no serial tag in the hardware id)
    ("/dev/cu.usbmodem7", "EiBotBoard,Solo", VIDPID + " LOCATION=20-7"),
    # serial tags with an underscore (how Windows shows a blank in the nickname)
    ("COM8", "USB Serial Device (COM8)", VIDPID + " SER=LAB_WEST LOCATION=1-7"),
    ("COM9", "USB Serial Device (COM9)", VIDPID + " SNR=PEN_LAB_2"),
    # a serial tag that ends the hardware id (pyserial appends LOCATION= only when it knows it)
    ("COM10", "USB Serial Device (COM10)", VIDPID + " SER=AxiOne"),
]


def _libs():
    from plotink import ebb3_serial, ebb_serial     # pylint: disable=import-outside-toplevel
    return ebb_serial, ebb3_serial


def is_ebb(port):
    return port[1].startswith("EiBotBoard") or port[2].startswith(VIDPID)


def ref_first(ports):
    for port in ports:
        if port[1].startswith("EiBotBoard"):
            return port[0]
    for port in ports:
        if port[2].startswith(VIDPID):
            return port[0]
    return None


def serial_tag(port, legacy):
    match = re.search(r"SER=(.+?) LOCATION", port[2]) or re.search(r"SER=(\S+)", port[2])
    if match:
        return match.group(1)
    if legacy:
        match = re.search(r"SNR=(\S+)", port[2])
        if match:
            return match.group(1)
    return None


ENUMERATION_STYLE = ["list"]        # how the stubbed enumerator hands the ports over


class Env:
    """Both layers with comports() replaced."""

    def __init__(self, ports, raising=False):
        self.ports = [PortInfo(*p) for p in ports]
        self.raising = raising
        self._ctx = []

    def _comports(self):
        if self.raising:
            raise TypeError("comports() failed (injected)")
        if ENUMERATION_STYLE[0] == "generator":     # pyserial 2.x handed out a one-shot iterator
            return (port for port in list(self.ports))
        if ENUMERATION_STYLE[0] == "tuple":
            return tuple(self.ports)
        return list(self.ports)

    def __enter__(self):
        legacy, ebb3 = _libs()
        self._ctx = [patched(legacy, comports=self._comports),
                     patched(ebb3, comports=self._comports)]
        for ctx in self._ctx:
            ctx.__enter__()
        return self

    def __exit__(self, *exc):
        for ctx in self._ctx:
            ctx.__exit__(*exc)
        return False


def check_list(ports):
    """Returns ([(clause, msg, lookup)], number of lookup calls)."""
    legacy, ebb3 = _libs()
    out = []
    calls = 0
    desc = f"ports {[p[0] for p in ports]}"
    devices = [p[0] for p in ports]
    with Env(ports):
        try:
            want = ref_first(ports)
            got_l = legacy.findPort()
            obj = ebb3.EBB3()
            obj.find_first()
            got_e = obj.port_name
            calls += 2
            if got_l != want or got_e != want:
                out.append(("first", f"{desc}: first-board discovery gave legacy {got_l!r}, EBB3 "
                            f"{got_e!r}; expected {want!r}", None))
            want_list = [p for p in ports if is_ebb(p)] or None
            for name, func in (("listEBBports", legacy.listEBBports),
                               ("list_ebb_ports", ebb3.list_ebb_ports)):
                got = func()
                calls += 1
                got_plain = [tuple(p) for p in got] if got is not None else None
                if got_plain != ([tuple(p) for p in want_list] if want_list else None):
                    out.append(("listing", f"{desc}: {name}() = {got_plain!r}, expected exactly the "
                                f"EBB ports in order: {want_list!r}", None))
            names_l = legacy.list_named_ebbs()
            names_e = ebb3.list_named_ebbs()
            calls += 2
            n_ebb = len(want_list) if want_list else 0
            for label, names in (("legacy", names_l), ("EBB3", names_e)):
                if (names is None) != (n_ebb == 0) or (names is not None and len(names) != n_ebb):
                    out.append(("names", f"{desc}: {label} list_named_ebbs() = {names!r} for "
                                f"{n_ebb} boards", None))
            # lookups derived from the list itself
            ebb_ports = [p for p in ports if is_ebb(p)]
            lookups = []            # (text, index of the board it was derived from, layers)
            for k, board in enumerate(ebb_ports):
                idx = ports.index(board)
                if names_l and k < len(names_l):
                    lookups.append((names_l[k], idx, ("legacy",)))
                if names_e and k < len(names_e):
                    lookups.append((names_e[k], idx, ("ebb3",)))
                tag_e = serial_tag(board, legacy=False)
                if tag_e:
                    lookups.append((tag_e, idx, ("legacy", "ebb3")))
                tag_l = serial_tag(board, legacy=True)
                if tag_l and tag_l != tag_e:
                    lookups.append((tag_l, idx, ("legacy",)))
                lookups.append((board[0], idx, ("legacy", "ebb3")))
            seen = set()
            for text, idx, layers in lookups:
                for variant in (text, text.upper(), text.lower()):
                    if variant.lower() != text.lower():
                        continue            # (upper-casing a ligature spells a different name)
                    for layer in layers:
                        if (variant, idx, layer) in seen:
                            continue
                        seen.add((variant, idx, layer))
                        func = legacy.find_named_ebb if layer == "legacy" else ebb3.find_named
                        got = func(variant)
                        calls += 1
                        problem = _judge(ports, devices, idx, variant, got)
                        if problem:
                            out.append(("lookup", f"{desc}: {layer} lookup {variant!r} (derived from "
                                        f"{ports[idx][0]}) = {got!r}: {problem}", (variant, layer)))
                    if set(layers) == {"legacy", "ebb3"}:
                        got_l, got_e = legacy.find_named_ebb(variant), ebb3.find_named(variant)
                        if got_l != got_e and "snr=" + variant.lower() not in \
                                " ".join(p[2] for p in ports).lower():
                            out.append(("layers", f"{desc}: lookup {variant!r}: legacy {got_l!r} "
                                        f"vs EBB3 {got_e!r}", (variant, "both")))
            for layer, func in (("legacy", legacy.find_named_ebb), ("ebb3", ebb3.find_named)):
                for absent in ("NoSuchBoard", None):
                    got = func(absent)
                    calls += 1
                    if got is not None:
                        out.append(("absent", f"{desc}: {layer} lookup {absent!r} = {got!r}, "
                                    f"expected None", (absent, layer)))
        except Exception as exc:            # pylint: disable=broad-except
            out.append(("raise", f"{desc}: discovery raised {type(exc).__name__}: {exc}", None))
    return out, calls


def _judge(ports, devices, idx, text, got):
    if got is None:
        return "the board is in the list but was not found"
    if got not in devices:
        return "returned a port that is not in the enumerated list"
    pos = devices.index(got)
    if pos > idx:
        return f"returned a later port although {devices[idx]} matches and comes first"
    if pos < idx:
        hay = " ".join(ports[pos]).lower()
        # "case-insensitively": simple lower-casing, or full Unicode case folding (under which
        # STRASSE and Straße are one name) - an earlier port that matches under either is a match
        if text.lower() not in hay and text.casefold() not in " ".join(ports[pos]).casefold():
            return (f"returned the earlier port {got}, whose fields do not contain the lookup "
                    f"text")
    return None


def check_raising():
    legacy, ebb3 = _libs()
    out = []
    with Env([], raising=True):
        try:
            obj = ebb3.EBB3()
            obj.find_first()
            results = [legacy.findPort(), obj.port_name, legacy.listEBBports(),
                       ebb3.list_ebb_ports(), legacy.list_named_ebbs(), ebb3.list_named_ebbs(),
                       legacy.find_named_ebb("East"), ebb3.find_named("East")]
            if any(r is not None for r in results):
                out.append(("enum_fail", f"enumerator raising TypeError: results {results!r}, "
                            f"expected all None", None))
        except Exception as exc:            # pylint: disable=broad-except
            out.append(("enum_fail", f"enumerator raising TypeError escaped: {exc!r}", None))
    return out


def short_lists():
    out = [()]
    for length in (1, 2):
        out += list(itertools.product(range(len(DESCRIPTORS)), repeat=length))
    return out


def check_reuse(combo_1, combo_2):
    """One EBB3 object used for two discoveries in a row (unplug / replug between them): the
    second answer depends on the second enumeration only."""
    _legacy, ebb3 = _libs()
    obj = ebb3.EBB3()
    out = []
    for combo in (combo_1, combo_2):
        ports = [DESCRIPTORS[k] for k in combo]
        with Env(ports):
            try:
                obj.find_first()
            except Exception as exc:        # pylint: disable=broad-except
                return [f"find_first raised {type(exc).__name__}: {exc}"]
        want = ref_first(ports)
        if obj.port_name != want:
            out.append(f"one EBB3 object, enumerations {[DESCRIPTORS[k][0] for k in combo_1]} then "
                       f"{[DESCRIPTORS[k][0] for k in combo_2]}: after the enumeration "
                       f"{[p[0] for p in ports]} first-board discovery gave {obj.port_name!r}, "
                       f"expected {want!r}")
    return out


def _reuse_chunk(firsts):
    part = core.Part()
    lists = short_lists()
    for combo_1 in firsts:
        for combo_2 in lists:
            for msg in check_reuse(combo_1, combo_2):
                part.violation(f"reuse:{combo_1}:{combo_2}", msg,
                               {"kind": "reuse", "first": list(combo_1), "second": list(combo_2)})
            part.count("reuse_histories")
            part.count("calls", 2)
    return part


# Every letter and digit (and a few marks) as the first and as the last character of a name, in
# each place a name can live: a character-set operation where a prefix was meant (str.lstrip,
# str.strip with the product name's letters) eats into some names and not into others.
NAME_CHARS = [chr(c) for c in range(ord("A"), ord("Z") + 1)] + \
             [chr(c) for c in range(ord("a"), ord("z") + 1)] + list("0123456789") + list("-.#+(") + [" ", "_", "\u00e9"]


def name_alphabet_lists():
    out = []
    for char in NAME_CHARS:
        for name in (char + "xq", "xq" + char, char):
            out.append(("descr", name))
            out.append(("ser", name))
            out.append(("snr", name))
            out.append(("ser_end", name))
    return out


def named_ports(style, name):
    board = {"descr": ("/dev/cu.usbmodem31", "EiBotBoard," + name, VIDPID + " LOCATION=20-9"),
             "ser": ("COM31", "USB Serial Device (COM31)", VIDPID + " SER=" + name + " LOCATION=1-9"),
             "snr": ("COM32", "USB Serial Device (COM32)", VIDPID + " SNR=" + name),
             "ser_end": ("COM33", "USB Serial Device (COM33)", VIDPID + " SER=" + name)}[style]
    return [DESCRIPTORS[6], DESCRIPTORS[1], board]     # a foreign device, an unnamed EBB, the board


def prefix_name_lists():
    """Port names one of which is a proper prefix of another (COM1 / COM12, ttyACM1 /
    ttyACM10): a lookup by the longer name must not stop at the shorter one."""
    out = []
    for short, longer in (("COM1", "COM12"), ("COM1", "COM10"), ("/dev/ttyACM1", "/dev/ttyACM10"),
                          ("/dev/cu.usbmodem1", "/dev/cu.usbmodem14")):
        shorts = [(short, "Communications Port (" + short + ")", "ACPI\\PNP0501\\1"),
                  (short, "EiBotBoard", VIDPID + " LOCATION=1-1"),
                  (short, "USB Serial Device (" + short + ")", VIDPID + " SER=Uno LOCATION=1-2")]
        longs = [(longer, "USB Serial Device (" + longer + ")", VIDPID + " LOCATION=1-3"),
                 (longer, "EiBotBoard,Duo", VIDPID + " SER=Duo LOCATION=1-4"),
                 (longer, "EiBotBoard", VIDPID)]
        for first in shorts:
            for second in longs:
                out.append([first, second])
                out.append([second, first])
                out.append([DESCRIPTORS[6], first, second])
    return out


def device_name_lists():
    """One board (named and unnamed) under every kind of device name an operating system gives a
    serial port: pyserial's own glob patterns (harvested from its enumeration modules, * filled
    in), the macOS dial-in / call-out pair /dev/tty.* and /dev/cu.*, Windows names above COM9
    and with the device prefix, by-id links - alone, after a foreign device, and next to its
    sibling node.  A lookup by any reported port name, in any casing, finds that port."""
    devices = ["/dev/tty.usbmodem1", "/dev/cu.usbmodem1", "/dev/tty.usbmodem14201",
               "/dev/cu.usbmodem14201", "/dev/tty.Bluetooth-Incoming-Port", "COM256",
               "\\\\.\\COM12", "/dev/serial/by-id/usb-SchmalzHaus_EiBotBoard-if00", "/dev/ttyS0",
               "/dev/pts/3", "/dev/cuaU0", "/dev/ttyU0", "/dev/dtyU0", "/dev/rfcomm0", "/dev/ttyAMA0"]
    for word in pyserial_words():
        if word.startswith("/dev/") and "*" in word:
            devices.append(word.replace("*", "x1"))
            devices.append(word.replace("*", ".usb1"))
    out = []
    for dev in dict.fromkeys(devices):
        named = (dev, "EiBotBoard,Dev", VIDPID + " SER=Dev LOCATION=2-1")
        plain = (dev, "EiBotBoard", VIDPID + " LOCATION=2-2")
        tagged = (dev, "USB Serial Device (" + dev.split("/")[-1] + ")", VIDPID + " SER=Tag7")
        for board in (named, plain, tagged):
            out.append([board])
            out.append([DESCRIPTORS[6], board])
        if dev.startswith("/dev/tty."):
            sibling = ("/dev/cu." + dev[len("/dev/tty."):], "EiBotBoard", VIDPID + " LOCATION=2-3")
            out.append([sibling, plain])
            out.append([plain, sibling])
    return out


def folding_pair_lists():
    """Two boards whose names are the same under full Unicode case folding and different under
    simple lower-casing (sharp s, ligatures, final sigma, dotted capital I): whichever notion of
    "case-insensitive" the library uses, both layers must use the same one."""
    out = []
    for plain, fancy in (("STRASSE", "Stra\u00dfe"), ("Office", "O\ufb03ce"), ("\u03c3\u03b1\u03c3", "\u03c3\u03b1\u03c2"),
                         ("first", "\ufb01rst"), ("i\u0307stanbul", "\u0130stanbul")):
        a_ser = ("COM3", "USB Serial Device (COM3)", VIDPID + " SER=" + plain + " LOCATION=1-1")
        b_ser = ("COM4", "USB Serial Device (COM4)", VIDPID + " SER=" + fancy + " LOCATION=1-2")
        a_des = ("/dev/cu.usbmodem3", "EiBotBoard," + plain, VIDPID + " LOCATION=20-3")
        b_des = ("/dev/cu.usbmodem4", "EiBotBoard," + fancy, VIDPID + " LOCATION=20-4")
        for first, second in ((a_ser, b_ser), (b_ser, a_ser), (a_des, b_des), (b_des, a_des),
                              (a_ser, b_des), (b_des, a_ser)):
            out.append([first, second])
            out.append([DESCRIPTORS[6], first, second])
    return out


def odd_hwid_lists():
    """Boards identified by their description alone, with every kind of hardware-id text pyserial
    produces for a port it knows little about ('n/a' for non-USB ports, empty, a Bluetooth or
    ACPI path, a foreign USB id): discovery, listing, naming and lookup go by the description."""
    out = []
    for hwid in ("n/a", "N/A", "", "BTHENUM\\{00001101-0000-1000-8000-00805F9B34FB}_LOCALMFG&0000",
                 "ACPI\\PNP0501\\1", "USB VID:PID=1234:5678 SER=Widget7", " "):
        for descr in ("EiBotBoard,Lab Plotter", "EiBotBoard", "EiBotBoard,Q"):
            board = ("/dev/cu.usbmodem1421", descr, hwid)
            out.append([board])
            out.append([DESCRIPTORS[6], board])
            out.append([board, DESCRIPTORS[2]])
    return out


def _prefix_chunk(lists):
    part = core.Part()
    for ports in lists:
        bad, calls = check_list(ports)
        # the same enumeration handed over as a one-shot iterator and as a tuple (the library
        # wraps the enumerator's answer in list() for a reason)
        for style in ("generator", "tuple"):
            ENUMERATION_STYLE[0] = style
            try:
                more, n_calls = check_list(ports)
            finally:
                ENUMERATION_STYLE[0] = "list"
            calls += n_calls
            bad += [(c, m + f" [enumerator answers with a {style}]", l) for c, m, l in more
                    if (c, m, l) not in bad]
        part.count("lists")
        part.count("prefix_name_lists")
        part.count("nontrivial")
        part.count("calls", calls)
        for clause, msg, lookup in bad:
            part.violation(f"{clause}:prefix:{[p[0] for p in ports]}:{lookup}", msg,
                           {"kind": "rawports", "ports": [list(p) for p in ports]})
    return part


def word_name_lists():
    """Nicknames that happen to begin like something else the lookup understands: a port name
    (COM..., /dev/...), the product name, a tag of the hardware id."""
    out = []
    for name in ("Comet", "COMPASS", "Commodore 64", "com", "COM1x", "/dev/null", "/dev/ttyACM0b",
                 "ttyACM7", "usbmodem", "EiBotBoard", "EiBot", "SER", "SER=7", "SNR", "LOCATION",
                 "USB", "VID", "04D8", "shelf location=2", "at Location=7", "a ser=b", "x snr=y",
                 "VID:PID=04D8:FD92", "lab (COM3)", "a,b"):
        for style in ("descr", "ser", "snr", "ser_end"):
            out.append((style, name))
    # ... and like something the serial layer itself understands: every short string literal in
    # pyserial's port and enumeration modules (the Windows device prefix, COM, LPT, /dev/tty...,
    # USB, ...) put in front of a name
    for prefix in pyserial_words():
        name = (prefix.rstrip("*") + "Bot")[:16]
        for style in ("descr", "ser", "snr", "ser_end"):
            out.append((style, name))
        if len(prefix) >= 3:
            out.append(("descr", prefix[:16]))
    return list(dict.fromkeys(out))


def pyserial_words():
    import ast                              # pylint: disable=import-outside-toplevel
    import importlib.util                   # pylint: disable=import-outside-toplevel
    found = set()
    for modname in ("serial.serialwin32", "serial.serialposix", "serial.serialutil",
                    "serial.tools.list_ports_windows", "serial.tools.list_ports_posix",
                    "serial.tools.list_ports_linux", "serial.tools.list_ports_osx",
                    "serial.tools.list_ports_common"):
        try:
            spec = importlib.util.find_spec(modname)
            with open(spec.origin, encoding="utf-8") as handle:
                tree = ast.parse(handle.read())
        except (ImportError, OSError, SyntaxError, AttributeError, ValueError):
            continue
        for node in ast.walk(tree):
            if isinstance(node, ast.Constant) and isinstance(node.value, str) and \
                    1 <= len(node.value) <= 12 and node.value.isascii() and \
                    node.value.isprintable() and "{" not in node.value and \
                    node.value.strip() == node.value and "," not in node.value:
                found.add(node.value)
    return sorted(found)


def _names_chunk(items):
    part = core.Part()
    for style, name in items:
        bad, calls = check_list(named_ports(style, name))
        part.count("lists")
        part.count("name_alphabet_lists")
        part.count("nontrivial")
        part.count("calls", calls)
        for clause, msg, lookup in bad:
            part.violation(f"{clause}:name:{style}:{name}:{lookup}", msg,
                           {"kind": "named", "style": style, "name": name})
    return part


def _chunk(args):
    firsts, length = args
    part = core.Part()
    for first in firsts:
        for rest in itertools.product(range(len(DESCRIPTORS)), repeat=max(length - 1, 0)):
            combo = (first,) + rest if length else ()
            ports = [DESCRIPTORS[k] for k in combo]
            bad, calls = check_list(ports)
            part.count("lists")
            part.count("calls", calls)
            if sum(1 for p in ports if is_ebb(p)) >= 1 and len(ports) >= 2:
                part.count("nontrivial")
            for clause, msg, lookup in bad:
                part.violation(f"{clause}:{combo}:{lookup}", msg,
                               {"kind": "ports", "combo": list(combo)})
            if length == 0:
                break
        if length == 0:
            break
    if firsts and length:
        part.sample({"ports": [list(DESCRIPTORS[firsts[0]])] +
                     [list(DESCRIPTORS[(firsts[0] + 3) % len(DESCRIPTORS)])] * (length - 1)}, limit=1)
    return part


def run(ctx):
    max_len = ctx.pick(4, 5)
    jobs = [([0], 0)]
    for length in range(1, max_len + 1):
        for chunk in core.split(range(len(DESCRIPTORS)), len(DESCRIPTORS)):
            jobs.append((chunk, length))
    part = core.fan_out(ctx, _chunk, jobs)
    part.merge(core.fan_out(ctx, _reuse_chunk, core.split(short_lists(), 32)))
    part.merge(core.fan_out(ctx, _names_chunk, core.split(name_alphabet_lists() + word_name_lists(), 16)))
    part.merge(core.fan_out(ctx, _prefix_chunk, core.split(prefix_name_lists() + odd_hwid_lists() + folding_pair_lists() + device_name_lists(), 8)))
    for clause, msg, _l in check_raising():
        part.violation(clause, msg, {"kind": "raising"})
    # long enumerations: every descriptor in turn preceded by 30 foreign ports and followed by
    # the remaining descriptors (position arithmetic, truncated scans)
    foreign = [k for k, d in enumerate(DESCRIPTORS) if not is_ebb(d)]
    for k in range(len(DESCRIPTORS)):
        combo = tuple(foreign[i % len(foreign)] for i in range(30)) + (k,) + \
            tuple(j for j in range(len(DESCRIPTORS)) if j != k)
        bad, calls = check_list([DESCRIPTORS[i] for i in combo])
        part.count("lists")
        part.count("long_lists")
        part.count("calls", calls)
        for clause, msg, lookup in bad:
            part.violation(f"{clause}:long{k}:{lookup}", msg, {"kind": "ports", "combo": list(combo)})
    # seed: one extra list with a rotated descriptor order, length 5
    rot = ctx.seed % len(DESCRIPTORS)
    combo = tuple((rot + 3 * k) % len(DESCRIPTORS) for k in range(5))
    bad, calls = check_list([DESCRIPTORS[k] for k in combo])
    part.count("lists")
    part.count("calls", calls)
    for clause, msg, lookup in bad:
        part.violation(f"{clause}:{combo}:{lookup}", msg, {"kind": "ports", "combo": list(combo)})
    cnt = part.counters
    coverage = {
        "states": cnt.get("lists", 0),
        "transitions": cnt.get("calls", 0),
        "traces_validated_against_impl": cnt.get("calls", 0),
        "evaluations": cnt.get("calls", 0),
        "distinct_nontrivial": cnt.get("nontrivial", 0),
        "rule": f"all ordered port lists of length 0..{max_len} over {len(DESCRIPTORS)} descriptor kinds (named / "
                "unnamed EBB, Windows SER=/SNR= styles, VID:PID-only, foreign devices, a name "
                "that prefixes another, names and tags containing a blank) x every lookup derived from the list (reported names, "
                "serial tags, port names; original/upper/lower case), both layers; every letter, digit and five marks as the first / last / only character of a name held in the description, the SER= tag or the SNR= tag; 108 lists with port names that are prefixes of one another (COM1 / COM12); all ordered pairs "
                "of lists of length 0..2 discovered one after the other by the same EBB3 object; 16 "
                "enumerations of 46 ports; "
                "non-trivial = "
                "lists of >= 2 ports containing a board",
        "samples": core.rotate(part.samples, ctx.seed, 4),
        "reuse_histories": cnt.get("reuse_histories", 0),
        "descriptor_alphabet": [list(d) for d in DESCRIPTORS],
        "exhaustive": True,
    }
    assumptions = ["descriptor strings modelled on pyserial 3 output on macOS/Linux/Windows",
                   "space/underscore serial-number variants are not asserted"]
    coverage["rule"] += ("; nicknames and serial tags beginning with each short string literal of pyserial's port and enumeration modules")
    coverage["rule"] += ("; one board under every kind of device name (pyserial's glob patterns, macOS dial-in / call-out pairs, Windows names)")
    return {"part": part, "coverage": coverage, "assumptions": assumptions}


def replay(case):
    if case["kind"] == "reuse":
        return check_reuse(tuple(case["first"]), tuple(case["second"]))
    if case["kind"] == "raising":
        return [m for _c, m, _l in check_raising()]
    if case["kind"] == "rawports":
        out = []
        for style in ("list", "generator", "tuple"):
            ENUMERATION_STYLE[0] = style
            try:
                out += [m + f" [enumerator answers with a {style}]" for _c, m, _l in
                        check_list([tuple(p) for p in case["ports"]])[0]]
            finally:
                ENUMERATION_STYLE[0] = "list"
        return out
    if case["kind"] == "named":
        return [m for _c, m, _l in check_list(named_ports(case["style"], case["name"]))[0]]
    ports = [DESCRIPTORS[k] for k in case["combo"]]
    return [m for _c, m, _l in check_list(ports)[0]]
