"""C16 - board-state round trips through the EBB3 layer are faithful.

Explicit-state search against the EBB3Board model: (a) int32 write/read at every slot and
overlapping double writes, RAM inspected directly; (b) motors_enable(r1, r2) from all 20
board motor states (installed directly *and* reached through the library's own calls, the
two compared), followed by motors_query_enabled, plus depth-2 chains; (c) nicknames.
"""
import itertools

from .. import core
from ..ebb3drv import call, new_object
from ..fakeserial import EBB3Board

PROPERTY = "C16"

BYTES = (0x00, 0x01, 0x7F, 0x80, 0xFF)
MOTOR_STATES = [(m1, m2, mode) for m1 in (False, True) for m2 in (False, True)
                for mode in (1, 2, 3, 4, 5)]
REQ = list(range(-1, 8))
NICKS = ["Axi", " Axi ", "A B", "0123456789abcdef", "", "   ", "x",
         # names that begin with the characters of the reply header ("QT,") itself
         "Tina", "Quill", "QT-3", "QT", "Q", "T", "TQ", ",lead", "qt", "A,B",
         # interior runs of blanks / a tab (the nickname is free text)
         "Pen  Plotter", "Lab\tUnit 3", " Rm  12  N ",
         # a full-length (16 character) name behind leading / trailing blanks
         "  0123456789abcdef", "\t NextDraw 8511-AB ", "   0123456789abcde  ",
         # names that contain the letters of the firmware's error marker (but not "Err:")
         "Sherry", "BERRY-2", "error", "Err",
         # names made of the protocol's own vocabulary: the product name and its abbreviation
         # (the version banner contains them), a banner, an acknowledgement, command names
         "EBB-2", "MyEBB", "EiBotBoard", "EBBv13 Firmware", "OK", "ST", "QT,Axi", "v",
         # names that read like the programming language's own "nothing" / numbers
         "None", "\tNone ", "none", "null", "False", "True", "0", "nan", "-1", "0x1F"]


def clamp(res):
    return min(max(int(res), 0), 5)


def int32_values():
    vals = []
    for quad in itertools.product(BYTES, repeat=4):
        vals.append(int.from_bytes(bytes(quad), "big", signed=True))
    return vals


def check_int32(value, slot):
    obj, port, board = new_object()
    out = []
    desc = f"var_write_int32({value}, {slot})"
    ret, exc = call(obj, "var_write_int32", (value, slot))
    if exc is not None or ret is not True or obj.err is not None:
        return [("write", f"{desc} -> {ret!r} exc={exc!r} err={obj.err!r}")]
    want = list(value.to_bytes(4, "big", signed=True))
    if board.ram[slot:slot + 4] != want:
        out.append(("ram", f"{desc}: board RAM[{slot}..{slot + 3}] = {board.ram[slot:slot + 4]}, "
                    f"expected big-endian bytes {want}"))
    others = board.ram[:slot] + board.ram[slot + 4:]
    if any(others):
        out.append(("ram_other", f"{desc}: wrote outside its four slots: {board.ram}"))
    back, exc = call(obj, "var_read_int32", (slot,))
    if exc is not None or back != value or isinstance(back, bool) or obj.err is not None:
        out.append(("readback", f"{desc} then var_read_int32({slot}) = {back!r} exc={exc!r} "
                    f"err={obj.err!r}"))
    if port.queue or port.misattributed():
        out.append(("align", f"{desc}: serial exchange misaligned"))
    # ... and on a board whose RAM is not blank (an earlier session or another program left
    # values there; the board stays powered): a new object writes, the RAM is inspected, a
    # third object reads
    for fill in (0xFF, 0x5A):
        board2 = EBB3Board(future=True, nickname="Axi")
        board2.ram = [fill] * 32
        obj2, _port2, board2 = new_object(board=board2)
        ret, exc = call(obj2, "var_write_int32", (value, slot))
        got = board2.ram[slot:slot + 4]
        other, _p3, _b3 = new_object(board=board2)
        back, exc2 = call(other, "var_read_int32", (slot,))
        rest = board2.ram[:slot] + board2.ram[slot + 4:]
        if exc is not None or exc2 is not None or ret is not True or got != want or \
                back != value or any(b != fill for b in rest):
            out.append(("ram_used", f"{desc} through a new object on a board whose RAM held "
                        f"{fill:#x} everywhere -> {ret!r} ({exc!r}): RAM[{slot}..{slot + 3}] = {got}, "
                        f"expected {want}; a further object reads {back!r} ({exc2!r}); other "
                        f"slots {'changed' if any(b != fill for b in rest) else 'untouched'}"))
    return out


def check_overlap(val_a, slot_a, val_b, slot_b):
    """Two writes at (possibly overlapping) slots, then both reads: the model RAM decides."""
    obj, _port, board = new_object()
    call(obj, "var_write_int32", (val_a, slot_a))
    call(obj, "var_write_int32", (val_b, slot_b))
    model = [0] * 32
    model[slot_a:slot_a + 4] = list(val_a.to_bytes(4, "big", signed=True))
    model[slot_b:slot_b + 4] = list(val_b.to_bytes(4, "big", signed=True))
    out = []
    desc = f"write {val_a}@{slot_a} then {val_b}@{slot_b}"
    if board.ram != model:
        out.append(("overlap_ram", f"{desc}: RAM {board.ram} != model {model}"))
    for slot in (slot_a, slot_b):
        want = int.from_bytes(bytes(model[slot:slot + 4]), "big", signed=True)
        got, exc = call(obj, "var_read_int32", (slot,))
        if exc is not None or got != want:
            out.append(("overlap_read", f"{desc}: var_read_int32({slot}) = {got!r} ({exc!r}), "
                        f"RAM holds {want}"))
    if obj.err is not None:
        out.append(("overlap_err", f"{desc}: err={obj.err!r}"))
    return out


RAM_A, RAM_B = 0x11223344, -0x55667788
RAM_OPS = [("w32", val, slot) for val in (RAM_A, RAM_B) for slot in (4, 5, 6, 7)] + \
          [("w8", byte, slot) for byte in (0x99, 0) for slot in range(4, 11)]


def check_ram_history(ops):
    """A sequence of 4-byte and 1-byte writes on one object (same values and slots may recur,
    fields may overlap from above and from below); the model RAM decides after every step,
    and everything is read back at the end."""
    obj, port, board = new_object()
    model = [0] * 32
    out = []
    desc = " ; ".join(f"{k}({v},{s})" for k, v, s in ops)
    for kind, val, slot in ops:
        if kind == "w32":
            ret, exc = call(obj, "var_write_int32", (val, slot))
            model[slot:slot + 4] = list(val.to_bytes(4, "big", signed=True))
        else:
            ret, exc = call(obj, "var_write", (val, slot))
            model[slot] = val
        if exc is not None or ret is not True or obj.err is not None:
            return [("hist_write", f"{desc}: {kind}({val},{slot}) -> {ret!r} exc={exc!r} "
                     f"err={obj.err!r}")]
        if board.ram != model:
            out.append(("hist_ram", f"{desc}: after {kind}({val},{slot}) the board RAM[4..13] is "
                        f"{board.ram[4:14]}, the writes so far amount to {model[4:14]}"))
            return out
    for slot in (4, 5, 6, 7):
        want = int.from_bytes(bytes(model[slot:slot + 4]), "big", signed=True)
        got, exc = call(obj, "var_read_int32", (slot,))
        if exc is not None or got != want or isinstance(got, bool):
            out.append(("hist_read", f"{desc}: var_read_int32({slot}) = {got!r} ({exc!r}), the "
                        f"board holds {want}"))
    for slot in (4, 10):
        got, exc = call(obj, "var_read", (slot,))
        if exc is not None or got != model[slot]:
            out.append(("hist_read", f"{desc}: var_read({slot}) = {got!r} ({exc!r}), the board "
                        f"holds {model[slot]}"))
    if obj.err is not None or port.queue or port.misattributed():
        out.append(("hist_err", f"{desc}: err={obj.err!r} / exchange misaligned"))
    return out


def expected_motor_state(state, res1, res2):
    """Statement: m1 iff clamp(r1)!=0, m2 iff clamp(r2)!=0, mode = requested non-zero
    resolution (motor 1's when both given); unchanged mode when both are zero."""
    _m1, _m2, mode = state
    r_1, r_2 = clamp(res1), clamp(res2)
    new_mode = r_1 if r_1 else (r_2 if r_2 else mode)
    return (r_1 != 0, r_2 != 0, new_mode)


def reach_state(obj, state):
    """Drive the board into a motor state through the library's own calls (if reachable)."""
    motor1, motor2, mode = state
    if motor1:
        obj.motors_enable(mode, mode if motor2 else 0)
    elif motor2:
        obj.motors_enable(0, mode)
    else:
        obj.motors_enable(mode, mode)
        obj.motors_disable()


def check_motors(state, requests, via_library, version="3.0.2"):
    board = EBB3Board(version=version, future=True, nickname="Axi")
    obj, port, board = new_object(board=board)
    if via_library:
        reach_state(obj, state)
        if board.motor_state() != state:
            return [("reach", f"library calls did not reach motor state {state}: "
                     f"{board.motor_state()}")]
    else:
        board.set_motor_state(*state)
    out = []
    current = state
    for res1, res2 in requests:
        desc = f"from board state {current}: motors_enable({res1}, {res2})"
        _ret, exc = call(obj, "motors_enable", (res1, res2))
        want = expected_motor_state(current, res1, res2)
        got = board.motor_state()
        if exc is not None or obj.err is not None:
            out.append(("motors_err", f"{desc}: exc={exc!r} err={obj.err!r}"))
            break
        if got[:2] != want[:2] or ((want[0] or want[1]) and got[2] != want[2]):
            out.append(("motors_state", f"{desc}: board is (motor1, motor2, mode) = {got}, "
                        f"expected {want}"))
        report, exc = call(obj, "motors_query_enabled", ())
        want_report = (got[2] if got[0] else 0, got[2] if got[1] else 0)
        if exc is not None or report != want_report:
            out.append(("motors_query", f"{desc}: motors_query_enabled() = {report!r} ({exc!r}), "
                        f"board state {got} means {want_report}"))
        current = got
    if port.queue or port.misattributed():
        out.append(("align", f"motor sequence {requests} from {state}: exchange misaligned"))
    return out


def check_nickname(prior, written):
    board = EBB3Board(future=True, nickname=prior)
    obj, _port, board = new_object(board=board)
    out = []
    desc = f"prior nickname {prior!r}: write_nickname({written!r})"
    ret, exc = call(obj, "write_nickname", (written,))
    if exc is not None or ret is not True or obj.err is not None:
        return [("nick_write", f"{desc} -> {ret!r} exc={exc!r} err={obj.err!r}")]
    if board.nickname != written.strip():
        out.append(("nick_board", f"{desc}: board stores {board.nickname!r}"))
    if obj.name != written.strip():
        out.append(("nick_name", f"{desc}: the object now calls the board {obj.name!r}, the "
                    f"board stores {board.nickname!r}"))
    obj.name = "stale"
    _ret, exc = call(obj, "query_nickname", ())
    want = written.strip()
    if exc is not None or obj.err is not None:
        out.append(("nick_read", f"{desc} then query_nickname(): exc={exc!r} err={obj.err!r}"))
    elif obj.name != want:
        out.append(("nick_read", f"{desc} then query_nickname(): name={obj.name!r}, expected "
                    f"{want!r}"))
    # ... and read by somebody else: a second object attached to the same board (a new session)
    other, _port2, _board2 = new_object(board=board)
    other.name = None
    _ret, exc = call(other, "query_nickname", ())
    if exc is not None or other.err is not None or (other.name or "") != want:
        out.append(("nick_read_other", f"{desc}, then a second object on the same board calls "
                    f"query_nickname(): name={other.name!r} exc={exc!r} err={other.err!r}, "
                    f"expected {want!r}"))
    return out


# -- two objects, two boards, used in turn ------------------------------------------------
# Everything the statement talks about is state of *one* board seen through *one* object: a
# value, a name or a resolution remembered anywhere else (class attribute, module cache keyed
# by the request text) answers for the wrong board as soon as two are connected.
PAIR_OPS = [("w32", RAM_A, 4), ("w32", RAM_B, 4), ("w32", RAM_B, 6), ("nick", "Ann"),
            ("nick", "Bob"), ("mot", 1, 1), ("mot", 3, 0), ("mot", 0, 5)]


def check_side_by_side(steps):
    """steps: ((which, op), ...) with which in (0, 1).  After the steps every board must hold
    exactly what was sent through its own object, and each object must read back its own."""
    pair = []
    for who in ("Ann0", "Bob0"):
        board = EBB3Board(future=True, nickname=who)
        obj, port, board = new_object(board=board)
        pair.append({"obj": obj, "port": port, "board": board, "ram": [0] * 32, "nick": who,
                     "motors": board.motor_state()})
    desc = " ; ".join(f"{'ab'[w]}.{op[0]}{tuple(op[1:])}" for w, op in steps)
    out = []
    for which, op in steps:
        side = pair[which]
        if op[0] == "w32":
            ret, exc = call(side["obj"], "var_write_int32", (op[1], op[2]))
            side["ram"][op[2]:op[2] + 4] = list(op[1].to_bytes(4, "big", signed=True))
        elif op[0] == "nick":
            ret, exc = call(side["obj"], "write_nickname", (op[1],))
            side["nick"] = op[1]
        else:
            ret, exc = call(side["obj"], "motors_enable", (op[1], op[2]))
            side["motors"] = expected_motor_state(side["motors"], op[1], op[2])
        if exc is not None or side["obj"].err is not None:
            return [("pair_err", f"{desc}: {op} on object {'ab'[which]} -> {ret!r} exc={exc!r} "
                     f"err={side['obj'].err!r}")]
    for label, side in zip("ab", pair):
        board, obj = side["board"], side["obj"]
        state = board.motor_state()
        want = side["motors"]
        if board.ram != side["ram"] or board.nickname != side["nick"] or \
                state[:2] != want[:2] or ((want[0] or want[1]) and state[2] != want[2]):
            out.append(("pair_board", f"{desc}: board {label} holds RAM[4..9]={board.ram[4:10]} "
                        f"nickname={board.nickname!r} motors={state}; what was sent through "
                        f"object {label} amounts to {side['ram'][4:10]} {side['nick']!r} {want}"))
            continue
        for slot in (4, 6):
            want_val = int.from_bytes(bytes(board.ram[slot:slot + 4]), "big", signed=True)
            got, exc = call(obj, "var_read_int32", (slot,))
            if exc is not None or got != want_val:
                out.append(("pair_read", f"{desc}: {label}.var_read_int32({slot}) = {got!r} "
                            f"({exc!r}), board {label} holds {want_val}"))
        obj.name = "stale"
        _ret, exc = call(obj, "query_nickname", ())
        if exc is not None or obj.name != board.nickname:
            out.append(("pair_read", f"{desc}: {label}.query_nickname() -> name {obj.name!r} "
                        f"({exc!r}), board {label} is called {board.nickname!r}"))
        report, exc = call(obj, "motors_query_enabled", ())
        want_report = (state[2] if state[0] else 0, state[2] if state[1] else 0)
        if exc is not None or report != want_report:
            out.append(("pair_read", f"{desc}: {label}.motors_query_enabled() = {report!r} "
                        f"({exc!r}), board {label} is in state {state}"))
        if obj.err is not None or side["port"].queue or side["port"].misattributed():
            out.append(("pair_err", f"{desc}: object {label} err={obj.err!r} / misaligned"))
    return out


def _job(job):
    kind, items = job
    part = core.Part()
    for item in items:
        if kind == "int32":
            bad = check_int32(*item)
            if item[0] < 0 or item[0] >= 1 << 24:
                part.count("nontrivial")
        elif kind == "overlap":
            bad = check_overlap(*item)
            if abs(item[1] - item[3]) < 4:
                part.count("nontrivial")
        elif kind == "ramhist":
            bad = check_ram_history(item)
            part.count("nontrivial")
            part.count("ram_histories")
        elif kind == "motors":
            bad = check_motors(*item)
            if len(item[1]) == 1:
                # single requests again on boards that reported a newer supported firmware when
                # they were connected (the state reached must not depend on it)
                for version in ("3.0.3", "3.2.0"):
                    bad += [(c, m + f" [board reported firmware {version}]")
                            for c, m in check_motors(*item, version=version)]
            part.count("nontrivial")
        elif kind == "pair":
            bad = check_side_by_side(item)
            part.count("nontrivial")
            part.count("pair_histories")
        else:
            bad = check_nickname(*item)
            part.count("nontrivial")
        part.count("histories")
        part.count("transitions", {"int32": 2, "overlap": 4, "nick": 2}.get(kind, 0) or
                   (len(item) + 6 if kind in ("ramhist", "pair") else 2 * len(item[1])))
        for clause, msg in bad:
            part.violation(f"{clause}:{kind}:{item!r}", msg, {"kind": kind, "item": _js(item)})
        part.add("states", core.digest((kind, repr(item))))
    if items:
        part.sample({"kind": kind, "case": _js(items[len(items) // 2])}, limit=1)
    return part


def _js(item):
    return [list(x) if isinstance(x, tuple) else
            ([list(y) for y in x] if isinstance(x, list) else x) for x in item]


def run(ctx):
    values = int32_values()
    extra = [abs(v) % (1 << 31) * (1 if k % 2 else -1)
             for k, v in enumerate(core.seeded_ints(ctx.seed, "c16.int32", 6, 31))]
    values = sorted(set(values) | set(extra))
    jobs = []
    int32_items = [(v, s) for v in values for s in range(29)]
    jobs += [("int32", chunk) for chunk in core.split(int32_items, 48)]
    sub = [0, 1, -1, 255, 256, -256, (1 << 31) - 1, -(1 << 31), 0x01020304]
    slots = range(29) if ctx.thorough else (0, 3, 4, 13, 25, 28)
    overlap_items = [(a, s, b, s + d) for a in sub for b in sub for s in slots
                     for d in range(-3, 4) if 0 <= s + d <= 28]
    jobs += [("overlap", chunk) for chunk in core.split(overlap_items, 32)]
    depth = ctx.pick(3, 4)
    ram_items = [tuple(h) for h in itertools.product(RAM_OPS, repeat=depth)]
    jobs += [("ramhist", chunk) for chunk in core.split(ram_items, 64)]
    motor_items = [(st, [(r1, r2)], False) for st in MOTOR_STATES for r1 in REQ for r2 in REQ]
    motor_items += [(st, [(r1, r2)], True) for st in MOTOR_STATES for r1 in REQ for r2 in REQ]
    chain = [0, 1, 3, 5]
    motor_items += [(st, [(a, b), (c, d)], False) for st in MOTOR_STATES
                    for a in chain for b in chain for c in chain for d in chain]
    # three (thorough: four) requests in a row on one object: something the object remembers
    # about the board from request 1 must still be true after request 2 changed the board
    reqs = [(a, b) for a in (0, 1, 2, 5) for b in (0, 1, 2, 5)]
    motor_items += [(st, list(seq), False) for st in ((False, False, 1), (True, True, 3))
                    for seq in itertools.product(reqs, repeat=3)]
    if ctx.thorough:
        few = [(1, 1), (0, 1), (0, 2), (2, 0), (0, 0), (5, 5)]
        motor_items += [((False, False, 1), list(seq), False)
                        for seq in itertools.product(few, repeat=4)]
    if ctx.thorough:
        motor_items += [(st, [(a, b), (c, d), (e, f)], False) for st in MOTOR_STATES[::3]
                        for a in chain for b in chain for c in chain for d in chain
                        for e in (0, 2) for f in (0, 4)]
    jobs += [("motors", chunk) for chunk in core.split(motor_items, 32)]
    pair_alphabet = [(which, op) for which in (0, 1) for op in PAIR_OPS]
    pair_items = [tuple(h) for h in itertools.product(pair_alphabet, repeat=ctx.pick(3, 4))
                  if len({w for w, _o in h}) == 2]
    jobs += [("pair", chunk) for chunk in core.split(pair_items, 32)]
    nick_items = [(p, w) for p in NICKS for w in NICKS]
    jobs.append(("nick", nick_items))
    part = core.fan_out(ctx, _job, jobs)
    cnt = part.counters
    coverage = {
        "states": part.size("states"),
        "transitions": cnt.get("transitions", 0),
        "traces_validated_against_impl": cnt.get("histories", 0),
        "evaluations": cnt.get("histories", 0),
        "distinct_nontrivial": cnt.get("nontrivial", 0),
        "rule": "int32: all 625 combinations of bytes {00,01,7F,80,FF} (+ seed values) x every "
                "slot 0..28, write/read-back and direct RAM inspection; overlapping double "
                "writes; all histories of 3 (thorough 4) writes over 22 write operations (two int32 "
                "values at four overlapping slots, single bytes at seven slots) checked against a "
                "model RAM after every step; motors: all 20 board motor states (installed directly and reached via "
                "library calls) x (r1,r2) in -1..7 squared, then depth-2 chains and all depth-3 "
                "(thorough: depth-4 over 6) chains over 16 requests on one object; nicknames: "
                "27 x 27 prior/written (incl. names starting with the reply header characters); two "
                "objects on two boards used in turn: all histories of 3 (thorough 4) steps over "
                "2 x 8 operations that touch both, each board and each object's read-back "
                "compared with what went through that object; non-trivial = negative or >= 2^24 values, overlapping "
                "slots, every motor and nickname history",
        "samples": core.rotate(part.samples, ctx.seed, 4),
        "int32_values": len(values),
        "ram_histories": cnt.get("ram_histories", 0),
        "side_by_side_histories": cnt.get("pair_histories", 0),
        "motor_histories": len(motor_items),
        "exhaustive": True,
    }
    assumptions = [
        "EBB3Board implements EM/QE/SL/QL/ST/QT as documented in the EBB command reference: "
        "EM,e1,e2 with e1 in 1..5 sets the global microstep mode and enables motor 1, e1=0 "
        "disables motor 1; e2 != 0 enables motor 2 at the current global mode",
        "a cleared nickname reads back as the empty string",
    ]
    return {"part": part, "coverage": coverage, "assumptions": assumptions}


def replay(case):
    kind, item = case["kind"], case["item"]
    if kind == "int32":
        bad = check_int32(*item)
    elif kind == "overlap":
        bad = check_overlap(*item)
    elif kind == "ramhist":
        bad = check_ram_history([tuple(op) for op in item])
    elif kind == "motors":
        bad = check_motors(tuple(item[0]), [tuple(r) for r in item[1]], item[2])
        if len(item[1]) == 1:
            for version in ("3.0.3", "3.2.0"):
                bad += [(c, m + f" [board reported firmware {version}]") for c, m in
                        check_motors(tuple(item[0]), [tuple(r) for r in item[1]], item[2],
                                     version=version)]
    elif kind == "pair":
        bad = check_side_by_side([(w, tuple(op)) for w, op in item])
    else:
        bad = check_nickname(*item)
    return [m for _c, m in bad]
