"""C08 - segment clipping returns exactly the part of the segment inside the rectangle.

Exhaustive lattices of (segment, rectangle) covering all 9x9 endpoint-region pairs, every
corner/edge grazing, vertical/horizontal/zero-length segments and zero-area rectangles;
exact Liang-Barsky reference in Fractions; loop budget observed through a counting wrapper
around clip_code in plot_utils' namespace.
"""
import itertools
from fractions import Fraction as F

from .. import core
from ..geom import frac, liang_barsky, point_at, sq_dist, sq_dist_point_segment

PROPERTY = "C08"
REL_TOL = F(1, 10 ** 9)
# (an earlier version also required "at most 5 loop passes", counted through clip_code calls; that
# is how the current implementation terminates, not what the property states - a behaviour-
# preserving recursive rewrite tripped it, so only the generous non-termination budget remains)


class LoopBudget(Exception):
    pass


def _lib():
    from plotink import plot_utils          # pylint: disable=import-outside-toplevel
    return plot_utils


def clip_counted(segment, bounds):
    """Run the real clip_segment with clip_code wrapped by a call counter."""
    plot_utils = _lib()
    real = plot_utils.clip_code
    calls = [0]

    def counting(*args):
        calls[0] += 1
        if calls[0] > 200:
            raise LoopBudget()
        return real(*args)
    plot_utils.clip_code = counting
    try:
        with core.watchdog(5.0):
            return plot_utils.clip_segment(segment, bounds), calls[0]
    finally:
        plot_utils.clip_code = real


def rect_sq_dist(point, rect):
    (xmin, ymin), (xmax, ymax) = rect
    d_x = max(xmin - point[0], 0, point[0] - xmax)
    d_y = max(ymin - point[1], 0, point[1] - ymax)
    return d_x * d_x + d_y * d_y


def check_case(seg, rect, as_tuples=False):
    """seg, rect given in the numeric types handed to the library. Returns [(clause, msg)].
    as_tuples: hand segment, rectangle and points over as tuples - ((x, y), (x, y)) - instead of
    lists (both are read-only inputs as far as the statement goes)."""
    desc = f"clip_segment({seg!r}, {rect!r})" + \
        (" [first point of the segment and second corner of the rectangle as tuples, the other "
         "two as lists]" if as_tuples == "mixed" else " [points as tuples]" if as_tuples else "")
    conv = tuple if as_tuples else list
    fseg = tuple((frac(p[0]), frac(p[1])) for p in seg)
    frect = tuple((frac(p[0]), frac(p[1])) for p in rect)
    # "tiny relative to the coordinate scale": relative, whatever the unit (drawings in metres
    # have coordinates of 1e-3, in nanometres of 1e9); no absolute floor
    scale = max(abs(v) for p in fseg + frect for v in p)
    tol2 = (REL_TOL * scale) ** 2
    core.rejected(_lib().clip_segment, [[0, 0]], [[0, 0], [1, 1]])          # one endpoint only
    try:
        if as_tuples == "mixed":
            (accept, result), calls = clip_counted([tuple(seg[0]), list(seg[1])],
                                                   [list(rect[0]), tuple(rect[1])])
        else:
            (accept, result), calls = clip_counted(conv([conv(seg[0]), conv(seg[1])]),
                                                   conv([conv(rect[0]), conv(rect[1])]))
    except LoopBudget:
        return [("loop", f"{desc} evaluated the region code more than 200 times (no convergence)")]
    except core.CaseTimeout:
        return [("loop", f"{desc} did not return within 5 s")]
    except Exception as exc:                # pylint: disable=broad-except
        return [("raise", f"{desc} raised {type(exc).__name__}: {exc}")]
    out = []
    if not as_tuples:
        # one bounds object kept by the caller and edited in place between calls (the page
        # size changed): the answer follows the object's contents at the time of the call
        plot_utils = _lib()
        kept = [[rect[0][0] + 4096, rect[0][1] - 4096], [rect[1][0] + 4096, rect[1][1] - 4096]]
        try:
            plot_utils.clip_segment([list(seg[0]), list(seg[1])], kept)
            kept[0][0], kept[0][1] = rect[0]
            kept[1] = list(rect[1])
            again = plot_utils.clip_segment([list(seg[0]), list(seg[1])], kept)
        except Exception as exc:            # pylint: disable=broad-except
            again = repr(exc)
        if again != (accept, result) and list(again) != [accept, result]:
            out.append(("kept_bounds", f"{desc}: with one bounds object first "
                        f"{[[rect[0][0] + 4096, rect[0][1] - 4096], [rect[1][0] + 4096, rect[1][1] - 4096]]} "
                        f"and then edited in place to {rect!r} the answer is {again!r}, with a "
                        f"fresh bounds object {(accept, result)!r}"))
    exact = liang_barsky(fseg, frect)
    inside_len2 = F(0)
    if exact is not None:
        inside_len2 = sq_dist(point_at(fseg, exact[0]), point_at(fseg, exact[1]))
    if accept is not True and accept is not False:
        out.append(("flag", f"{desc} returned accept flag {accept!r}"))
    if not accept:
        # "rejection only when no part of the segment is inside by more than the tolerance":
        # some point of it lying deeper inside than the tolerance settles that - also for a
        # segment of zero length (a dot well inside the page)
        deep = None
        if exact is not None:
            for par in (exact[0], exact[1], (exact[0] + exact[1]) / 2):
                pnt = point_at(fseg, par)
                depth = min(pnt[0] - frect[0][0], frect[1][0] - pnt[0],
                            pnt[1] - frect[0][1], frect[1][1] - pnt[1])
                if depth > 0 and depth * depth > tol2:
                    deep = (pnt, depth)
                    break
        if deep is not None and inside_len2 <= tol2:
            out.append(("reject", f"{desc} rejected, but the point {tuple(map(float, deep[0]))} of "
                        f"the segment lies {float(deep[1])} inside the rectangle"))
        if exact is not None and inside_len2 > tol2:
            out.append(("reject", f"{desc} rejected, but the part of the segment for t in "
                        f"[{exact[0]}, {exact[1]}] lies inside the rectangle"))
        elif exact is not None and inside_len2 == 0 and all(
                isinstance(v, int) for p in seg + rect for v in p) and _dyadic_safe(fseg, frect):
            out.append(("reject", f"{desc} rejected a segment that touches the rectangle at "
                        f"t={exact[0]} (exactly representable case)"))
        return out
    try:
        res = tuple((frac(result[0][0]), frac(result[0][1])) for _ in (0,)) + \
            tuple((frac(result[1][0]), frac(result[1][1])) for _ in (0,))
    except Exception as exc:                # pylint: disable=broad-except
        return out + [("shape", f"{desc} returned a malformed segment {result!r} ({exc!r})")]
    for idx, point in enumerate(res):
        if rect_sq_dist(point, frect) > tol2:
            out.append(("outside", f"{desc} accepted with endpoint {idx} = {result[idx]!r} "
                        f"outside the rectangle"))
        if sq_dist_point_segment(point, fseg[0], fseg[1]) > tol2:
            out.append(("off_segment", f"{desc} accepted with endpoint {idx} = {result[idx]!r} "
                        f"not on the input segment"))
    if exact is None:
        if not out:
            pass            # accepted something within tolerance of both: allowed by the statement
        else:
            out.append(("accept", f"{desc} accepted although no part of the segment is inside"))
        return out
    want_0, want_1 = point_at(fseg, exact[0]), point_at(fseg, exact[1])
    if (sq_dist(res[0], want_0) > tol2 or sq_dist(res[1], want_1) > tol2) and not (
            _shallow(fseg, frect, exact[0], _param(res[0], fseg), REL_TOL * scale) and
            _shallow(fseg, frect, exact[1], _param(res[1], fseg), REL_TOL * scale)):
        if sq_dist(res[0], want_1) <= tol2 and sq_dist(res[1], want_0) <= tol2 and \
                inside_len2 > tol2:
            out.append(("orientation", f"{desc} returned {result!r}: endpoints swapped relative "
                        f"to the input's orientation"))
        else:
            out.append(("coverage", f"{desc} returned {result!r}; the inside part is exactly "
                        f"{[tuple(map(float, want_0)), tuple(map(float, want_1))]}"))
    return out


def _param(point, fseg):
    """Parameter in [0, 1] of the point of the input segment nearest to `point`."""
    (x_1, y_1), (x_2, y_2) = fseg
    d_x, d_y = x_2 - x_1, y_2 - y_1
    len2 = d_x * d_x + d_y * d_y
    if len2 == 0:
        return F(0)
    return max(F(0), min(F(1), ((point[0] - x_1) * d_x + (point[1] - y_1) * d_y) / len2))


def _shallow(fseg, frect, par_a, par_b, tol):
    """True when no point of the input segment between the two parameters is inside the
    rectangle by more than tol.  The statement's tolerance applies to "the inside part" as it
    does to rejection ("no part of the segment is inside by more than that tolerance"): where a
    segment runs along an edge within rounding of it, which of its points count as inside is
    not decidable from rounded coordinates, and a returned end that differs from the exact
    crossing only by such a stretch is within the statement.  Depth is a minimum of four linear
    functions of the parameter, so its maximum is at an end or where two of them cross."""
    low, high = min(par_a, par_b), max(par_a, par_b)
    (x_1, y_1), (x_2, y_2) = fseg
    d_x, d_y = x_2 - x_1, y_2 - y_1
    lines = [(x_1 - frect[0][0], d_x), (frect[1][0] - x_1, -d_x),
             (y_1 - frect[0][1], d_y), (frect[1][1] - y_1, -d_y)]
    cands = {low, high}
    for (c_i, m_i), (c_j, m_j) in itertools.combinations(lines, 2):
        if m_i != m_j:
            par = (c_j - c_i) / (m_i - m_j)
            if low < par < high:
                cands.add(par)
    return max(min(c + m * par for c, m in lines) for par in cands) <= tol


def _dyadic_safe(_fseg, _frect):
    return False            # touching-only cases are never *required* to be accepted


def lattices(ctx):
    """[(name, segments iterator factory, rectangles)] in the numeric types given to the lib."""
    coords = list(range(-2, 6))
    points = list(itertools.product(coords, coords))
    rects = [((0, 0), (3, 3)), ((0, 1), (3, 2)), ((0, 0), (3, 0)), ((1, 0), (1, 3)),
             ((1, 1), (1, 1))]
    trects = [((0.1, 0.3), (0.7, 0.9))]
    if ctx.thorough:
        # every rectangle (min <= max, degenerate ones included) with corners on a 5x5 sub-lattice
        rects = [((x_a, y_a), (x_b, y_b)) for x_a in range(5) for x_b in range(x_a, 5)
                 for y_a in range(5) for y_b in range(y_a, 5)]
        rects += [((-1, 0), (4, 2)), ((2, -2), (5, 5))]
        marks = (0.1, 0.3, 0.7, 0.9)
        trects = [((x_a, y_a), (x_b, y_b)) for i, x_a in enumerate(marks) for x_b in marks[i:]
                  for j, y_a in enumerate(marks) for y_b in marks[j:]]
    out = [("int", [(a, b) for a in points for b in points], rects)]
    tenths = [k / 10 for k in range(-3, 14, 2)]
    tpts = list(itertools.product(tenths, tenths))
    out.append(("tenths", [(a, b) for a in tpts for b in tpts], trects))
    shift = 10 ** 6
    big = [(float(x + shift), float(y + shift)) for x, y in points]
    out.append(("shifted", [(a, b) for a in big for b in big],
                [((float(shift), float(shift)), (float(shift + 3), float(shift + 3)))]))
    small = [(x * 1e-3, y * 1e-3) for x, y in points]
    out.append(("scaled", [(a, b) for a in small for b in small], [((0.0, 0.0), (3e-3, 3e-3)),
                                                                    ((0.0, 1e-3), (3e-3, 2e-3))]))
    # the integer lattice in units of 2^-40 (about 1e-12; exact in binary): any absolute
    # notion of "close enough" (1e-9, say) is larger than the whole picture there
    unit = 2.0 ** -40
    tiny = [(x * unit, y * unit) for x, y in points]
    out.append(("tiny", [(a, b) for a in tiny for b in tiny],
                [((0.0, 0.0), (3 * unit, 3 * unit)), ((0.0, unit), (3 * unit, 2 * unit)),
                 ((unit, 0.0), (unit, 3 * unit))]))
    # ... and in units of 2^600 and 2^-600: every coordinate is an ordinary finite float, but
    # the *product* of two of them is not (a formula that multiplies before it divides)
    # ... and in units of 2^-1030, where every coordinate is a *subnormal* float (gradual
    # underflow keeps sums and differences exact; a reciprocal 1 / (x2 - x1) overflows)
    for name, unit in (("vast", 2.0 ** 600), ("minute", 2.0 ** -600), ("subnormal", 2.0 ** -1030)):
        pts = [(x * unit, y * unit) for x, y in points]
        out.append((name, [(a, b) for a in pts for b in pts],
                    [((0.0, 0.0), (3 * unit, 3 * unit)), ((0.0, unit), (3 * unit, 2 * unit))]))
    # slivers: segments that cross an edge they are nearly parallel to (a pen stroke along the
    # page border): the crossing point is then the quotient of two tiny differences, exact in the
    # reference and ill-conditioned in any formula that subtracts two large products instead
    for eps_name, eps in (("sliver38", 2.0 ** -38), ("sliver45", 2.0 ** -45)):
        for rect in (((1.0, 1.0), (4.0, 5.0)), ((0.3, 0.7), (11.0, 8.5))):
            offs = (-3, -1, 0, 1, 2, 5)
            segs = []
            for edge in (rect[0][0], rect[1][0]):
                across = (rect[0][1] - 3, rect[0][1], rect[0][1] + 1.25, rect[1][1] - 0.5,
                          rect[1][1], rect[1][1] + 2)
                segs += [((edge + a * eps, y_0), (edge + b * eps, y_1)) for a in offs for b in offs
                         for y_0 in across for y_1 in across]
            for edge in (rect[0][1], rect[1][1]):
                across = (rect[0][0] - 3, rect[0][0], rect[0][0] + 1.25, rect[1][0] - 0.5,
                          rect[1][0], rect[1][0] + 2)
                segs += [((x_0, edge + a * eps), (x_1, edge + b * eps)) for a in offs for b in offs
                         for x_0 in across for x_1 in across]
            out.append((eps_name, segs, [rect]))
    # seed-derived extra rectangle on the integer lattice (still enumerated completely)
    rnd = core.seeded_ints(ctx.seed, "c08.rect", 4, 3, signed=False)
    x_a, x_b = sorted((rnd[0] % 6 - 1, rnd[1] % 6 - 1))
    y_a, y_b = sorted((rnd[2] % 6 - 1, rnd[3] % 6 - 1))
    out.append(("seedrect", [(a, b) for a in points for b in points], [((x_a, y_a), (x_b, y_b))]))
    return out


def _chunk(args):
    name, segs, rects = args
    part = core.Part()
    for rect in rects:
        for seg in segs:
            bad = check_case(seg, rect)
            if name == "int":
                bad += check_case(seg, rect, as_tuples=True)
                bad += check_case(seg, rect, as_tuples="mixed")
                part.count("cases", 2)
            part.count("cases")
            fseg = tuple((frac(p[0]), frac(p[1])) for p in seg)
            frect = tuple((frac(p[0]), frac(p[1])) for p in rect)
            exact = liang_barsky(fseg, frect)
            if exact is not None and (exact[0] > 0 or exact[1] < 1):
                part.count("nontrivial")            # clipping actually shortened the segment
            if exact is not None and exact[0] == exact[1]:
                part.count("grazing_or_point")
            for clause, msg in bad:
                part.violation(f"{clause}:{name}:{seg!r}:{rect!r}", msg,
                               {"kind": "clip", "seg": [list(seg[0]), list(seg[1])],
                                "rect": [list(rect[0]), list(rect[1])],
                                "as_tuples": "mixed" if "the other two as lists" in msg
                                else "as tuples" in msg})
    part.sample({"lattice": name, "segment": [list(p) for p in segs[len(segs) // 3]],
                 "rectangle": [list(p) for p in rects[0]]}, limit=1)
    return part


def run(ctx):
    jobs = []
    for name, segs, rects in lattices(ctx):
        for chunk in core.split(segs, 16):
            jobs.append((name, chunk, rects))
    part = core.fan_out(ctx, _chunk, jobs)
    from .. import callforms              # pylint: disable=import-outside-toplevel
    part.merge(callforms.explore("C08"))
    cnt = part.counters
    coverage = {
        "states": cnt.get("cases", 0),
        "transitions": cnt.get("cases", 0),
        "traces_validated_against_impl": cnt.get("cases", 0),
        "evaluations": cnt.get("cases", 0),
        "distinct_nontrivial": cnt.get("nontrivial", 0),
        "rule": "all segments with both endpoints on an 8x8 lattice (4096 per rectangle: every "
                "region pair, grazing, vertical/horizontal/zero-length) x rectangles incl. zero-"
                "height, zero-width and point; the same lattice in tenths, shifted by 1e6 and "
                "scaled by 1e-3, by 2^-40, by 2^600 / 2^-600 and by 2^-1030 (subnormal coordinates); 10368 slivers (segments crossing an edge of a rectangle with non-zero edges at 2^-38 / 2^-45 from parallel, both orientations, all four edges); a seed-derived extra rectangle; thorough: all 225 rectangles with "
                "corners on a 5x5 sub-lattice and all 100 on four tenths marks; non-trivial = the exact inside "
                "part is a proper sub-segment (clipping shortened it); all cases distinct",
        "samples": core.rotate(part.samples, ctx.seed, 4),
        "grazing_or_single_point_cases": cnt.get("grazing_or_point", 0),
        "exhaustive": True,
    }
    assumptions = ["tolerance = 1e-9 x the largest coordinate magnitude of the case (purely relative)",
                   "a returned end may differ from the exact crossing by a stretch of the input "
                   "segment that is nowhere inside the rectangle by more than that tolerance "
                   "(the same allowance the statement makes for rejection)",
                   "a segment that only touches the rectangle in one point may be accepted or "
                   "rejected (the statement's tolerance clause)"]
    return {"part": part, "coverage": coverage, "assumptions": assumptions}


def replay(case):
    if case.get("kind") == "callform":
        from .. import callforms          # pylint: disable=import-outside-toplevel
        return callforms.replay(case)
    seg = tuple(tuple(p) for p in case["seg"])
    rect = tuple(tuple(p) for p in case["rect"])
    return [m for _c, m in check_case(seg, rect, case.get("as_tuples", False))]
