"""C07 - legacy serial primitives: one write, aligned replies, no exception on faults.

Engine: E1 (deviation-bounded exploration of the fake port's answers) over single requests
and over sequences of requests (E2: the only carried state is what is left unread in the
port and the board's variables; canonical state = board snapshot + output queue).
"""
import itertools
import logging

from .. import core
from ..explore import Stats, explore, run_vector
from ..fakeserial import PYSERIAL_READ_FAULTS, PYSERIAL_WRITE_FAULTS, FakePort, LegacyBoard, Profile

PROPERTY = "C07"
MAXLAT = 100            # empty reads a conforming board may put before each line

# the four kinds pyserial raises, and RuntimeError, which the library's own except clauses name
EXCS = ("SerialException", "PortNotOpenError", "SerialTimeoutException", "OSError",
        "RuntimeError", "OSError_EAGAIN",
        "InterruptedError", "BrokenPipeError")
# ... and each fault pyserial's own read()/write() can raise, with the class and text pyserial uses
PROFILE = Profile(write_exc=EXCS + PYSERIAL_WRITE_FAULTS, read_exc=EXCS + PYSERIAL_READ_FAULTS, latency=(0, 1, MAXLAT, MAXLAT + 1),
                  content=("err",), silent=True, read_window=3, late={MAXLAT, MAXLAT + 1})
# sequences: conforming latencies plus the cheap faults
SEQ_PROFILE = Profile(write_exc=("SerialException",), read_exc=("SerialException", "OSError"),
                      latency=(0, 1, MAXLAT, MAXLAT + 1), content=("err",), silent=True,
                      read_window=2)

OK_QUERIES = ["QB", "QP", "QS", "QC", "QL", "QT"]
NO_OK_QUERIES = ["V", "v", "QM", "QG", "PI,E,0", "I", "A", "MR"]
COMMANDS = ["EM,1,1", "SP,1,100", "SL,7", "RB", "ST,{bench}", "ST,{0}%s",   # free text in a name
            # low-level moves of 63, 64, 65 and 75 characters with their CR (a USB packet is 64)
            "LM,2147483647,-2147483648,-2147483648,2147483647,-2147483648,1",
            "LM,2147483647,-2147483648,-2147483648,2147483647,-2147483648,12",
            "LM,2147483647,-2147483648,-2147483648,2147483647,-2147483648,123",
            "LM,2147483647,-2147483648,-2147483648,2147483647,-2147483648,-2147483648,3"]
assert [len(c) + 1 for c in COMMANDS[-4:]] == [63, 64, 65, 75]

ALPHABET = [("query", q + "\r") for q in OK_QUERIES + NO_OK_QUERIES] + \
           [("command", c + "\r") for c in COMMANDS]
SEQ3_ALPHABET = [("query", "QB\r"), ("query", "QL\r"), ("query", "V\r"), ("query", "QM\r"),
                 ("query", "PI,E,0\r"), ("command", "SL,7\r"), ("command", "EM,1,1\r"),
                 ("query", "QT\r")]


class _Sink(logging.Handler):
    def __init__(self):
        super().__init__(level=logging.DEBUG)
        self.count = 0

    def emit(self, record):
        try:
            record.getMessage()
        except Exception:               # pylint: disable=broad-except
            pass
        self.count += 1


def _lib():
    from plotink import ebb_serial      # pylint: disable=import-outside-toplevel
    return ebb_serial


_SINK = None


def _quiet_logger():
    global _SINK                        # pylint: disable=global-statement
    lib = _lib()
    if _SINK is None or _SINK not in lib.logger.handlers:
        _SINK = _Sink()
        lib.logger.handlers = [_SINK]
        lib.logger.setLevel(logging.DEBUG)
        lib.logger.propagate = False
    return _SINK


def execute(chooser, ops, profile, board_kwargs=None):
    """Run one history against a fresh board and port; return (violations, observation)."""
    lib = _lib()
    sink = _quiet_logger()
    # an op may carry a fourth element: which of two boards (each on its own port) it goes to
    kwargs_list = board_kwargs["pair"] if board_kwargs and "pair" in board_kwargs \
        else [board_kwargs or {}]
    boards = [LegacyBoard(**{k: v for k, v in kw.items() if k != "port_timeout"})
              for kw in kwargs_list]
    ports = [FakePort(brd, chooser, profile) for brd in boards]
    for port_0, kw in zip(ports, kwargs_list):
        if "port_timeout" in kw:            # what the port object says its read timeout is
            port_0.timeout = kw["port_timeout"]
    viols = []
    obs = []
    states = []
    env_ok = True                       # every environment answer so far was conforming
    for i, oper in enumerate(ops):
        kind, text, verbose = oper[:3]
        which = oper[3] if len(oper) > 3 else 0
        board, port, one_kwargs = boards[which], ports[which], kwargs_list[which]
        port.tag = f"op{i}:"
        att_0 = len(port.write_attempts)
        other = ports[1 - which] if len(ports) > 1 else None
        other_0 = len(other.write_attempts) if other else 0
        faults_0 = len(port.faults)
        led_0 = len(port.ledger)
        req_0 = port.req_id
        logs_0 = sink.count
        func = lib.query if kind == "query" else lib.command
        raised = None
        ret = None
        try:
            ret = func(port, text, verbose)
        except Exception as exc:        # pylint: disable=broad-except
            raised = exc
        attempts = port.write_attempts[att_0:]
        faults = port.faults[faults_0:]
        op_env_ok = all(k == "latency" and v <= MAXLAT for (_t, k, v) in faults)
        env_ok = env_ok and op_env_ok
        fsum = ",".join(f"{k}={v}" for (_t, k, v) in faults) or "none"
        where = f"{kind}({text!r}) op{i} faults[{fsum}]"
        ckey = f"{kind}:{text.strip()}:{fsum}"
        if len(ports) > 1:
            where = f"port {'AB'[which]} of two: " + where + \
                f" after {[(o[1].strip(), 'AB'[o[3]]) for o in ops[:i]]}"
            ckey += f":{'AB'[which]}{i}"

        if raised is not None:
            viols.append((f"raise:{ckey}:{type(raised).__name__}",
                          f"{where}: raised {type(raised).__name__}: {raised}"))
        if len(ports) > 1 and len(other.write_attempts) != other_0:
            viols.append((f"crosswrite:{ckey}", f"{where}: the *other* port was handed "
                          f"{other.write_attempts[other_0:]!r}"))
        # the bytes on the wire decide: the request goes out once, whole - possibly handed to
        # the port in several pieces (and up to the piece that raised, if a write raised)
        want = text.encode("ascii")
        sent = b"".join(attempts)
        wrote_exc = any(k == "write_exc" for (_t, k, _v) in faults)
        if not attempts or (sent != want and not (wrote_exc and want.startswith(sent))):
            viols.append((f"writes:{ckey}", f"{where}: write attempts {attempts!r}, expected "
                          f"the bytes {want!r}, once"))
        if raised is None:
            if kind == "query" and not isinstance(ret, str):
                viols.append((f"type:{ckey}", f"{where}: query returned {type(ret).__name__} "
                              f"{ret!r}, not text"))
            if kind == "command" and ret is not None:
                viols.append((f"ret:{ckey}", f"{where}: command returned {ret!r}"))
        produced = [t for (p, _c, t) in port.ledger if p == req_0 + 1] + \
                   [ln.text for ln in port.queue if ln.req == req_0 + 1]
        if env_ok and raised is None:
            # conforming board, conforming latencies: replies must stay aligned
            mis = [(p, c, t) for (p, c, t) in port.ledger[led_0:] if p != c]
            if mis:
                viols.append((f"misattributed:{ckey}", f"{where}: consumed a reply of another "
                              f"request: {mis}"))
            if port.queue:
                left = [(ln.req, ln.text) for ln in port.queue]
                viols.append((f"leftover:{ckey}", f"{where}: lines left unread after the "
                              f"exchange: {left}"))
            if kind == "query" and isinstance(ret, str):
                expect = board_expected(board, req_0, one_kwargs)
                if expect is None:
                    if ret != "":
                        viols.append((f"data:{ckey}", f"{where}: nothing was sent but query "
                                      f"returned {ret!r}"))
                elif ret.strip() != expect.strip() or ret == "":
                    viols.append((f"data:{ckey}", f"{where}: returned {ret!r}, the data line "
                                  f"of this request is {expect!r}"))
        if raised is None and kind == "query" and isinstance(ret, str) and not env_ok:
            # "the data line belonging to that request, or an empty string when nothing arrived":
            # once this request has read its own, unaltered data line, a fault that follows (an
            # exception or silence while waiting for the trailing OK) does not un-arrive it
            expect = board_expected(board, req_0, one_kwargs)
            mine = [ln for ln in port.produced if ln.req == req_0 + 1]
            arrived = expect is not None and bool(mine) and not mine[0].mutated and \
                mine[0].orig_delay <= MAXLAT and mine[0].text == expect and any(
                    p == c == req_0 + 1 and t == expect for (p, c, t) in port.ledger[led_0:])
            clean_before = all(p == c for (p, c, _t) in port.ledger[:led_0]) and \
                not any(ln.req <= req_0 for ln in port.queue)
            if arrived and clean_before and port.ledger[led_0][:2] == (req_0 + 1, req_0 + 1) \
                    and port.ledger[led_0][2] == expect and ret.strip() != expect.strip():
                viols.append((f"arrived:{ckey}", f"{where}: the data line {expect!r} of this "
                              f"request had been read when the fault came, but query returned "
                              f"{ret!r}"))
        if raised is None and kind == "query" and isinstance(ret, str) and not produced \
                and op_env_ok and not port.ledger[led_0:]:
            if ret != "":
                viols.append((f"empty:{ckey}", f"{where}: nothing arrived but query returned "
                              f"{ret!r}"))
        if faults and any(k == "silent" for (_t, k, _v) in faults) and raised is None \
                and kind == "query" and not port.ledger[led_0:] and ret != "":
            viols.append((f"empty:{ckey}", f"{where}: board silent but query returned {ret!r}"))
        obs.append((kind, text, type(ret).__name__, ret if isinstance(ret, str) else None,
                    type(raised).__name__ if raised else None, len(attempts),
                    sink.count - logs_0 > 0))
        states.append(tuple((brd.snapshot(), tuple((ln.req - prt.req_id, ln.text, ln.delay)
                                                   for ln in prt.queue))
                            for brd, prt in zip(boards, ports)))
    return viols, obs, states


def board_expected(board, req_index, board_kwargs=None):
    """Data line the board produced for its request number req_index (0-based), or None."""
    probe = LegacyBoard(**{k: v for k, v in (board_kwargs or {}).items() if k != "port_timeout"})
    probe.version, probe.banner = board.version, board.banner
    lines = None
    for request in board.requests[:req_index + 1]:
        lines = probe.handle(request)
    return lines[0] if lines else None


# ---------------------------------------------------------------------------------------

def _explore_history(args):
    ops, bound, profile_name = args[:3]
    board_kwargs = args[3] if len(args) > 3 else None
    profile = PROFILE if profile_name == "single" else SEQ_PROFILE
    part = core.Part()
    stats = Stats()

    def run(chooser):
        viols, obs, states = execute(chooser, ops, profile, board_kwargs)
        part.count("transitions", len(ops))
        for state in states:
            part.add("states", core.digest(state))
        for key, msg in viols:
            part.violation(key, msg, {"kind": "history", "ops": [list(o) for o in ops],
                                      "profile": profile_name, "vector": chooser.vector(),
                                      "board": board_kwargs})
        if chooser.deviations():
            part.count("faulted_executions")
            if chooser.deviations() == bound and part.counters["faulted_executions"] % 97 == 1:
                part.sample({"ops": [list(o) for o in ops], "vector": chooser.vector(),
                             "observed": [list(o) for o in obs]}, limit=1)
        return core.digest(obs)

    explore(run, bound, stats)
    part.count("executions", stats.executions)
    part.count("choice_points", stats.points)
    part.count("max_choice_depth", stats.max_depth)
    part.sets.setdefault("outcomes", set()).update(stats.outcomes)
    for devs, number in stats.by_deviations.items():
        part.count(f"executions_with_{devs}_deviations", number)
    part.count("histories")
    return part


def _trivial_cases(part):
    """No port / no text: nothing is written, None is returned."""
    lib = _lib()
    board = LegacyBoard()
    for kind in ("query", "command"):
        func = lib.query if kind == "query" else lib.command
        for text in ("QB\r", None):
            port = FakePort(board)
            for use_port in ((None, text), (port, None)):
                try:
                    ret = func(use_port[0], use_port[1])
                except Exception as exc:        # pylint: disable=broad-except
                    part.violation(f"none:{kind}", f"{kind} with port/text None raised {exc!r}",
                                   {"kind": "none"})
                    continue
                if ret is not None or port.write_attempts:
                    which = "port=None" if use_port[0] is None else "text=None"
                    part.violation(f"none:{kind}", f"{kind} with {which} returned {ret!r}, "
                                   f"writes {port.write_attempts!r}", {"kind": "none"})
                part.count("trivial_cases")


def _closed_port_cases(part):
    """A port that has been closed is still a port: its write() raises PortNotOpenError (a
    SerialException), so the request is attempted once, nothing is raised, query returns ''."""
    lib = _lib()
    _quiet_logger()
    for how in ("close", "closePort"):
        for kind, text in (("query", "QB\r"), ("query", "V\r"), ("command", "EM,1,1\r")):
            port = FakePort(LegacyBoard())
            if how == "close":
                port.close()
            else:
                lib.closePort(port)
            func = lib.query if kind == "query" else lib.command
            try:
                ret = func(port, text)
                problem = None
            except Exception as exc:        # pylint: disable=broad-except
                ret, problem = None, f"raised {exc!r}"
            want = "" if kind == "query" else None
            if problem is None and (ret != want or port.write_attempts != [text.encode("ascii")]):
                problem = (f"returned {ret!r} after write attempts {port.write_attempts!r}; expected "
                           f"{want!r} after one attempt to write {text!r}")
            if problem:
                part.violation(f"closed:{how}:{kind}:{text.strip()}",
                               f"{kind}({text!r}) on a port closed with {how}(): {problem}",
                               {"kind": "closed"})
            part.count("trivial_cases")


def run(ctx):
    jobs = []
    single_bound = ctx.pick(2, 3)
    seq_bound = 2
    for kind, text in ALPHABET:
        for verbose in (True, False):
            jobs.append((((kind, text, verbose),), single_bound, "single"))
    for first, second in itertools.product(ALPHABET, repeat=2):
        jobs.append(((first + (True,), second + (False,)), seq_bound, "seq"))
    if ctx.thorough:
        for trio in itertools.product(SEQ3_ALPHABET, repeat=3):
            jobs.append((tuple(t + (True,) for t in trio), 2, "seq"))
        for quad in itertools.product(SEQ3_ALPHABET[:5], repeat=4):
            jobs.append((tuple(t + (False,) for t in quad), 1, "seq"))
    else:
        for trio in itertools.product(SEQ3_ALPHABET[:5], repeat=3):
            jobs.append((tuple(t + (True,) for t in trio), 2, "seq"))
    # data lines that look like protocol tokens: a board whose nickname begins with "OK"
    for nick in ("OK", "OKAPI", "OK 2"):
        board = {"nickname": nick}
        q_t = ("query", "QT\r")
        jobs.append((((q_t + (True,)),), 2, "single", board))
        for other in ALPHABET:
            jobs.append(((q_t + (True,), other + (False,)), 1, "seq", board))
            jobs.append(((other + (True,), q_t + (False,), ("query", "QB\r", False)), 1, "seq", board))
    # a board that acknowledges the restart command like any other command ("OK for commands,
    # each preceded by up to 100 empty reads"): the OK belongs to RB however it is spelt and
    # however late it comes, and must not be left over for the next request
    acking = {"rb_ack": True}
    for spelt in ("RB\r", "rb\r", "Rb", " RB \r", "BL\r"):
        jobs.append(((("command", spelt, True),), 2, "single", acking))
        for other in (("query", "QB\r"), ("query", "V\r"), ("command", "SL,7\r"),
                      ("query", "QT\r")):
            jobs.append(((("command", spelt, False), other + (True,)), 2, "seq", acking))
            jobs.append(((other + (False,), ("command", spelt, True), other + (True,)), 1, "seq",
                         acking))
    # ordinary queries beyond the handful the model board knows - real ones of later 2.x firmware
    # (QE, QN, QR, QU) and names that merely resemble a documented no-OK name (a longer name, a
    # name with a blank or a punctuation mark in it, a shorter one): the first comma-separated
    # field, trimmed, is the name, and only the seven documented names go without an OK
    looks = ["QE", "QN", "QR", "QU"]
    for base in ("V", "QM", "QG", "PI", "I", "A", "MR"):
        looks += [base + tail for tail in (" 1", ".2", ":0", "-B", "X", "1", "_x", ";", "\t1", "?")]
        looks += ["X" + base, base + base, base.lower() + " x"]
        if len(base) > 1:
            looks += [base[:-1], base[1:]]
    looks = list(dict.fromkeys(n for n in looks
                               if n.strip().upper() not in ("V", "QM", "QG", "PI", "I", "A", "MR")))
    known = {"extra_queries": looks}
    for name in looks:
        for spelt in (name + "\r", name + ",3\r"):
            jobs.append(((("query", spelt, True),), 1, "single", known))
            jobs.append(((("query", spelt, False), ("query", "QB\r", True)), 1, "seq", known))
            jobs.append(((("query", "V\r", True), ("query", spelt, False),
                          ("query", "QM\r", True)), 0, "seq", known))
    # ports opened with another read timeout than the library's own 1 s (None = blocking, 0 =
    # non-blocking, 50 ms, 2 s, 5 s, a minute): "up to 100 empty reads" counts reads, whatever
    # the port says a read may take
    for port_timeout in (None, 0, 0.05, 1.5, 2.0, 5.0, 60):
        slow = {"port_timeout": port_timeout}
        for first in (("query", "QB\r"), ("query", "V\r"), ("command", "SL,7\r")):
            jobs.append(((first + (True,),), 2, "single", slow))
            for second in (("query", "QT\r"), ("query", "QM\r"), ("command", "EM,1,1\r")):
                jobs.append(((first + (False,), second + (True,)), 2, "seq", slow))
    # long sessions: dozens of requests on one port (a counter, a buffer, a drift that only
    # shows after many exchanges), every single deviation at every point of the session
    steady = [op for op in ALPHABET if op[1].strip() != "RB"]
    for length, offset in ((40, 0), (61, 5)) + (((150, 3),) if ctx.thorough else ()):
        session = tuple(steady[(offset + 7 * k) % len(steady)] + (k % 2 == 0,)
                        for k in range(length))
        jobs.append((session, 1, "seq"))
    # two boards on two ports, used in turn: whatever one board said must never answer for the
    # other (a reply or a version remembered per request text instead of per port)
    pair = {"pair": [{"version": "2.8.1", "nickname": "Ann"},
                     {"version": "2.5.3", "nickname": "Bob", "layer": 7}]}
    differing = [("query", "V\r"), ("query", "QT\r"), ("query", "QL\r"), ("query", "QP\r"),
                 ("command", "SP,0,100\r"), ("query", "QB\r")]
    for first, second in itertools.product(differing, repeat=2):
        ops = (first + (True, 0), first + (False, 1), second + (True, 0), second + (False, 1),
               first + (True, 1), first + (False, 0))
        jobs.append((ops, 1, "seq", pair))
    # seed: rotate job order only (all jobs are always run)
    part = core.fan_out(ctx, _explore_history, jobs)
    _trivial_cases(part)
    _closed_port_cases(part)
    # "each preceded by up to 100 empty reads" is an allowance per reply line, not per port: a
    # long session on one port against a board that is a little slow every time
    from .c06 import slow_session          # pylint: disable=import-outside-toplevel
    for stall in (1, 2, 3):
        for length in ((60, 140) if stall < 3 else (9,)):
            for msg in slow_session("legacy", stall, length):
                part.violation(f"slow_session:legacy:{stall}:{length}", msg,
                               {"kind": "slow_session", "layer": "legacy", "stall": stall,
                                "length": length})
            part.count("slow_sessions")
    samples = core.rotate(part.samples, ctx.seed, 3) + \
        core.rotate([{"ops": [list(o) for o in j[0]], "deviation_bound": j[1]}
                     for j in jobs], ctx.seed, 2)
    execs = part.counters.get("executions", 0)
    coverage = {
        "states": part.size("states") + 1,
        "transitions": part.counters.get("transitions", 0),
        "traces_validated_against_impl": execs,
        "evaluations": execs,
        "distinct_nontrivial": part.counters.get("faulted_executions", 0),
        "rule": "every history (1 request x verbose on/off, all ordered pairs, triples over a "
                "sub-alphabet, sessions of 40 and 61 (150) requests with one deviation anywhere, "
                "nickname queries against boards whose nickname begins with OK, restart commands in five "
                "spellings alone / before / between other requests against a board that "
                "acknowledges them, 36 six-request "
                "sessions alternating between two boards of different version / nickname / state "
                "on two ports) x "
                "every vector of environment answers with at most the stated "
                "number of deviations; non-trivial = execution with at least one deviation "
                "(empty reads, silence, error line, raised exception); each (history, vector) "
                "is distinct by construction",
        "samples": samples,
        "histories": part.counters.get("histories", 0),
        "deviation_bound_single": single_bound,
        "deviation_bound_sequences": seq_bound,
        "choice_points": part.counters.get("choice_points", 0),
        "max_choice_depth": part.counters.get("max_choice_depth", 0),
        "distinct_outcomes": part.size("outcomes"),
        "executions_by_deviations": {k: v for k, v in sorted(part.counters.items())
                                     if k.startswith("executions_with_")},
        "alphabet": [t.strip() for _k, t in ALPHABET],
        "exhaustive": True,
    }
    assumptions = [
        "board model: firmware 2.x syntax; commands answer OK; queries answer a data line and "
        "OK except a,i,mr,pi,qm,qg,v which answer one line; RB/BL answer nothing (and, in a "
        "second board variant, OK like any other command)",
        "conforming latency = at most 100 empty reads before each line; 101 = late (fault)",
        "alignment is asserted only while every environment answer so far was conforming",
        "read faults are offered at the first reads of each request and at the retry limit",
    ]
    coverage["rule"] += ("; ordinary queries beyond the model board's own (QE, QN, QR, QU and look-alikes of the seven no-OK names, with and without an argument) alone, before QB, and between V and QM; faults with every class and message text pyserial's own read() / write() can raise")
    coverage["rule"] += ('; boards behind ports that report a read timeout of None, 0, 0.05, 1.5, 2, 5, 60 s (3 first x 3 second requests)')
    return {"part": part, "coverage": coverage, "assumptions": assumptions}


def replay(case):
    if case.get("kind") == "slow_session":
        from .c06 import slow_session      # pylint: disable=import-outside-toplevel
        return slow_session(case["layer"], case["stall"], case["length"])
    if case.get("kind") == "closed":
        part = core.Part()
        _closed_port_cases(part)
        return [v["msg"] for v in part.violations]
    if case.get("kind") == "none":
        part = core.Part()
        _trivial_cases(part)
        return [v["msg"] for v in part.violations]
    ops = [tuple(o) for o in case["ops"]]
    profile = PROFILE if case["profile"] == "single" else SEQ_PROFILE

    def run(chooser):
        return execute(chooser, ops, profile, case.get("board"))

    (viols, _obs, _states), _ch = run_vector(run, [tuple(v) for v in case["vector"]])
    return [msg for _key, msg in viols]
