"""C03 - step-limited (LM) move duration is the first tick that exhausts the step budget.

From each initial state the LM machine (LT recurrence + count of motor steps taken in
either direction) is stepped once; every time the count first reaches a budget s, the
tuple (tick, position, accumulator) at that tick is the oracle for calculate_lm(s, ...).
Long moves use the exact bisection oracle of mc/firmware.py, which is compared with the
stepped machine on every short row.
"""
import itertools

from .. import core
from ..firmware import (RATE_MAX, TWO31, lm_budget_table, lm_closed, lm_stepped, lt_in_domain,
                        lt_total_closed)

PROPERTY = "C03"
P27, P28, P29, P30, P31 = 1 << 27, 1 << 28, 1 << 29, 1 << 30, 1 << 31


def _pm(values):
    out = set()
    for val in values:
        out.add(val)
        out.add(-val)
    return out


def alphabets(ctx):
    rate = _pm([0, 1, P29, P30, P30 - 1, P31 - 1, 123456789, 1800095000]) | {80000000, 500000}
    accel = _pm([0, 1, P27, P27 + 1, P28, P29, P30, P30 + 1, 26012345, 35111222, 50353403,
                 77012345]) | {2, -3}
    accum = [core.RUNTIME_CLEAR, 0, 1, P30, P31 - 1]
    budgets = list(range(1, 13)) + [17, 100, 1000]
    long_budgets = [1, 2, 3, 1000, 10 ** 5]
    max_ticks = 4096
    extra = 2
    if ctx.thorough:
        rate |= _pm([2, 3, 1 << 16, 1 << 24, P28, P29 + 1, P30 + 1, P31 - 2, 1000000007])
        accel |= _pm([3, 5, 1 << 8, 1 << 16, (1 << 16) + 1, 1 << 24, P28 + 1, P29 + 1, 1234567,
                      98765432, 1 << 26])
        accum += [2, P30 + 1, P31 - 2]
        budgets += [13, 14, 15, 16, 31, 32, 33, 255, 256, 4096]
        long_budgets += [7, 10 ** 6]
        extra = 5
    rate |= set(core.seeded_ints(ctx.seed, "c03.rate", extra, 31))
    accel |= set(core.seeded_ints(ctx.seed, "c03.accel", extra, 30))
    clip = lambda vals: sorted(v for v in vals if abs(v) <= RATE_MAX)     # noqa: E731
    return clip(rate), clip(accel), accum, sorted(set(budgets)), long_budgets, max_ticks


def _lib():
    from plotink import ebb_calc, ebb_motion    # pylint: disable=import-outside-toplevel
    return ebb_calc, ebb_motion


def classify(steps, rate, accel, accum, expect):
    """A coarse defect class for the canonical key of a mismatch (branch of the solver)."""
    from ..firmware import _turning_tick        # pylint: disable=import-outside-toplevel
    turn = _turning_tick(rate, accel)
    if turn is None or expect is None:
        return "noreversal"
    if expect[0] <= turn:
        return "ends_before_reversal"
    if turn == 1:
        return "reversal_after_first_tick"
    return "reversing"


def check_lm(steps, rate, accel, accum, expect, taken_before=None):
    """expect = (k, pos, acc) from the machine for the (positive-step) request.
    Returns list of (clause, msg)."""
    ebb_calc, ebb_motion = _lib()
    desc = f"steps={steps} rate={rate} accel={accel} accum={accum}"
    out = []
    try:
        got = ebb_calc.calculate_lm(steps, rate, accel, accum)
    except Exception as exc:                    # pylint: disable=broad-except
        return [("raise", f"calculate_lm({desc}) raised {exc!r}")]
    got = tuple(got)
    if got != tuple(expect) or not all(isinstance(v, int) for v in got):
        out.append(("value", f"calculate_lm({desc}) = {got!r}; stepping the firmware recurrence "
                    f"reaches the budget first at (tick, position, accumulator) = {tuple(expect)!r}"))
    if len(got) == 3 and isinstance(got[2], int) and not 0 <= got[2] < TWO31:
        out.append(("accum_range", f"calculate_lm({desc}) = {got!r}: accumulator outside [0,2^31)"))
    if len(got) == 3 and got[0] > 0 and lt_in_domain(rate, accel, got[0]):
        try:
            back = tuple(ebb_calc.move_dist_lt(rate, accel, got[0], accum))
        except Exception as exc:                # pylint: disable=broad-except
            out.append(("roundtrip", f"move_dist_lt after calculate_lm({desc}) raised {exc!r}"))
        else:
            if back != got[1:]:
                out.append(("roundtrip", f"calculate_lm({desc}) = {got!r} but move_dist_lt over "
                            f"that duration gives {back!r}"))
    if accum == "clear":
        try:
            legacy = ebb_motion.moveTimeLM(rate, steps, accel)
        except Exception as exc:                # pylint: disable=broad-except
            out.append(("moveTimeLM", f"moveTimeLM({desc}) raised {exc!r}"))
        else:
            if legacy != expect[0]:
                out.append(("moveTimeLM", f"moveTimeLM({desc}) = {legacy!r}, duration is "
                            f"{expect[0]}"))
    return out


def check_mirror(steps, rate, accel, accum, expect):
    """Legacy negative-step form: calculate_lm(-s, -rate, -accel) mirrors (s, rate, accel)."""
    ebb_calc, _m = _lib()
    if -rate < 0:
        return []           # negative steps with negative input rate: "cannot move" family
    desc = f"steps={-steps} rate={-rate} accel={-accel} accum={accum} (legacy mirror)"
    try:
        got = tuple(ebb_calc.calculate_lm(-steps, -rate, -accel, accum))
    except Exception as exc:                    # pylint: disable=broad-except
        return [("mirror_raise", f"calculate_lm({desc}) raised {exc!r}")]
    if got != tuple(expect):
        return [("mirror", f"calculate_lm({desc}) = {got!r}; the mirrored move reaches the budget "
                 f"at {tuple(expect)!r}")]
    return []


def _case(steps, rate, accel, accum):
    return {"kind": "lm", "steps": steps, "rate": rate, "accel": accel, "accum": accum}


def _report(part, clause, steps, rate, accel, accum, expect, msg):
    cls = classify(steps, rate, accel, accum, expect)
    part.count(f"mismatch_{cls}")
    part.violation(f"{clause}:{cls}:{steps},{rate},{accel},{accum}", msg,
                   _case(steps, rate, accel, accum))


def _rows_chunk(args):
    rows, budgets, long_budgets, max_ticks = args
    part = core.Part()
    for rate, accel, accum in rows:
        table, why = lm_budget_table(rate, accel, accum, budgets, max_ticks)
        part.count("rows")
        part.count(f"rows_stopped_{why}")
        # machine states visited by this one run
        last_tick = max((v[0] for v in table.values()), default=0)
        part.count("states", last_tick if why == "all" else
                   (max_ticks if why == "long" else last_tick))
        for steps, expect in sorted(table.items()):
            # minimality comes straight from the machine (first tick reaching the budget);
            # cross-check the bisection oracle against the stepped machine (model conformance)
            closed = lm_closed(steps, rate, accel, accum)
            if closed != ("done",) + tuple(expect):
                raise AssertionError(f"reference oracles disagree: {closed} vs {expect} for "
                                     f"{(steps, rate, accel, accum)}")
            part.count("model_conformance_checks")
            for clause, msg in check_lm(steps, rate, accel, accum, expect):
                _report(part, clause, steps, rate, accel, accum, expect, msg)
            for clause, msg in check_mirror(steps, rate, accel, accum, expect):
                _report(part, clause, steps, rate, accel, accum, expect, msg)
            part.count("impl_cases")
            from ..firmware import _turning_tick     # pylint: disable=import-outside-toplevel
            turn = _turning_tick(rate, accel)
            if turn is not None and expect[0] > turn:
                part.count("nontrivial")             # the move reverses before its end
                if abs(expect[1]) != steps:
                    part.count("steps_in_both_directions")
            if expect[2] == 0 or expect[2] == TWO31 - 1:
                part.count("exact_boundary_hits")
            part.sample({"steps": steps, "rate": rate, "accel": accel, "accum": accum,
                         "machine_first_tick_position_accumulator": list(expect)}, limit=2)
        if why == "long":
            for steps in long_budgets:
                if steps in table:
                    continue
                closed = lm_closed(steps, rate, accel, accum)
                if closed[0] != "done":
                    part.count("long_out_of_domain")
                    continue
                expect = closed[1:]
                for clause, msg in check_lm(steps, rate, accel, accum, expect):
                    _report(part, clause, steps, rate, accel, accum, expect, msg)
                for clause, msg in check_mirror(steps, rate, accel, accum, expect):
                    _report(part, clause, steps, rate, accel, accum, expect, msg)
                part.count("impl_cases")
                part.count("long_cases")
    return part


def boundary_accums(steps, rate, accel):
    """Start accumulators that put the completion of the budget exactly on a tick (zero
    margin), one count short of it and one count past it - for the tick that completes the
    budget from accumulator 0 and the tick before.  Only candidates are produced here; the
    expected answer always comes from the exact oracle."""
    base = lm_closed(steps, rate, accel, 0)
    if base[0] != "done":
        return []
    out = set()
    for tick in (base[1] - 1, base[1]):
        if tick < 1:
            continue
        total = lt_total_closed(rate, accel, 0, tick)
        for target in (steps * TWO31, (1 - steps) * TWO31 - 1, -steps * TWO31,
                       (steps - 1) * TWO31 + TWO31 - 1):
            for delta in (-1, 0, 1):
                cand = target - total + delta
                if 0 <= cand < TWO31:
                    out.add(cand)
    return sorted(out)


def _directed_case(part, steps, rate, accel, accum, counter):
    closed = lm_closed(steps, rate, accel, accum)
    if closed[0] != "done":
        part.count("long_out_of_domain")
        return
    expect = closed[1:]
    if closed[1] <= 4096:       # model conformance wherever the machine can be stepped
        if lm_stepped(steps, rate, accel, accum, 4096) != closed:
            raise AssertionError(f"reference oracles disagree for "
                                 f"{(steps, rate, accel, accum)}")
        part.count("model_conformance_checks")
    for clause, msg in check_lm(steps, rate, accel, accum, expect):
        _report(part, clause, steps, rate, accel, accum, expect, msg)
    for clause, msg in check_mirror(steps, rate, accel, accum, expect):
        _report(part, clause, steps, rate, accel, accum, expect, msg)
    part.count("impl_cases")
    part.count(counter)
    if expect[2] in (0, 1, TWO31 - 1, TWO31 - 2):
        part.count("exact_boundary_hits")


def _boundary_chunk(rows):
    part = core.Part()
    for steps, rate, accel in rows:
        for accum in boundary_accums(steps, rate, accel):
            _directed_case(part, steps, rate, accel, accum, "boundary_directed_cases")
    return part


def turn_rows(ctx):
    """Reversing moves whose accumulator total, at the tick where the motor turns round (and
    the ticks next to it), is a chosen few counts short of / past a step boundary: 0, 1, 2, 3,
    a quarter, a half (-1, +0, +1) and the whole of the turning tick's number - the sizes by
    which an estimate of the steps made before the turn can be out (half a count per tick
    for odd accelerations).  Budgets: completed at the turn, and 1, 2, 3 steps after it."""
    from ..firmware import _turning_tick, lt_total_closed       # pylint: disable=import-outside-toplevel
    rates = [400000000, 400033039, 123456789, 1800095000, P30 + 1, 500000]
    accels = [-1000001, -1000000, -70433, -70432, -26012345, -1234567]
    if ctx.thorough:
        rates += [P31 - 1, 80000000, 1000000007, 77]
        accels += [-3, -2, -7, -(1 << 16) - 1, -50353403]
    pairs = list(itertools.product(rates, accels))
    # ... and turns that come tens of millions of ticks in (a top rate against an acceleration
    # of a few counts per tick): there accel * t^2 / 2 is past 2^53, and a quadratic term that
    # went through a double on its way is out by a few counts
    pairs += list(itertools.product([1800000011, 1999999999, P31 - 1], [-23, -37, -3, -255]))
    out = []
    for rate, accel in pairs:
        for sgn in (1, -1):
            r_s, a_s = sgn * rate, sgn * accel
            turn = _turning_tick(r_s, a_s)
            if turn is None or turn < 2:
                continue
            deltas = {0}
            for size in (1, 2, 3, 4, 5, turn // 4, turn // 2 - 1, turn // 2, turn // 2 + 1, turn):
                deltas |= {size, -size}
            for tick in (turn - 1, turn, turn + 1):
                total = lt_total_closed(r_s, a_s, 0, tick)
                for delta in sorted(deltas):
                    accum = (delta - total) % TWO31
                    before = abs(lt_total_closed(r_s, a_s, accum, turn) // TWO31 - accum // TWO31)
                    for steps in {max(before, 1), before + 1, before + 2, before + 3}:
                        out.append((steps, r_s, a_s, accum))
    return out


def _turn_chunk(rows):
    part = core.Part()
    for steps, rate, accel, accum in rows:
        _directed_case(part, steps, rate, accel, accum, "turn_directed_cases")
    return part


def boundary_rows(ctx):
    rates = sorted(_pm([P31 - 1, P31 - 2, P30, P30 + 1, 123456789, 1800095000, 80000000,
                        536796752, 449800]))
    accels = [0, 1, -1, 2, 5, -3, 26012345, -26012345]
    # accelerations whose reciprocal is not short in binary (dividing by them and multiplying by
    # their rounded reciprocal differ in the last place - which decides a ceil() on an exact
    # landing): none of them a small integer, a power of two or next to one
    accels += [19, -19, 21, -21, 27, -27, 38, 42, -54, 55, 61, -69, 12360, -110]
    budgets = [1, 2, 3, 1000, (1 << 22) + 1, 9000000, (1 << 26) + 3]
    if ctx.thorough:
        rates += [500000, -500000, 1000000007, -1000000007]
        accels += [3, -7, 1 << 8, -(1 << 8)]
        budgets += [3, 1 << 23, 1 << 30]
    return [(s, r, a) for s in budgets for r in rates for a in accels]


def cannot_move_cases():
    """(steps, rate, accel) requests that cannot move -> (0, 0, 0)."""
    vals = [0, 1, -1, 5, -7, P30, -P30, P31 - 1]
    cases = []
    for rate, accel in itertools.product(vals, vals):
        cases.append((0, rate, accel))
    for steps in (1, -1, 7, -100, 1000):
        cases.append((steps, 0, 0))
    for steps in (-1, -5, -1000):
        for rate in (-1, -5, -P30, -(P31 - 1)):
            for accel in vals:
                cases.append((steps, rate, accel))
    return cases


def _cannot_move(part):
    ebb_calc, _m = _lib()
    for steps, rate, accel in cannot_move_cases():
        for accum in (core.RUNTIME_CLEAR, 0, 12345):
            try:
                got = tuple(ebb_calc.calculate_lm(steps, rate, accel, accum))
            except Exception as exc:            # pylint: disable=broad-except
                got = repr(exc)
            if got != (0, 0, 0):
                part.violation(f"cannot_move:{steps},{rate},{accel},{accum}",
                               f"calculate_lm(steps={steps}, rate={rate}, accel={accel}, "
                               f"accum={accum}) = {got!r}; a request that cannot move must "
                               f"report (0, 0, 0)",
                               {"kind": "cannot", "steps": steps, "rate": rate, "accel": accel,
                                "accum": accum})
            part.count("cannot_move_cases")
        # the deprecated duration-only wrapper reports the same: duration 0
        _calc, ebb_motion = _lib()
        try:
            got = ebb_motion.moveTimeLM(rate, steps, accel)      # (rate, steps, accel)
        except Exception as exc:                # pylint: disable=broad-except
            got = repr(exc)
        if got != 0:
            part.violation(f"cannot_move_time:{steps},{rate},{accel}",
                           f"moveTimeLM(rate={rate}, steps={steps}, accel={accel}) = {got!r}; a "
                           f"request that cannot move must report duration 0",
                           {"kind": "cannot_time", "steps": steps, "rate": rate, "accel": accel})
        part.count("cannot_move_cases")


def run(ctx):
    rates, accels, accums, budgets, long_budgets, max_ticks = alphabets(ctx)
    rows = [r for r in itertools.product(rates, accels, accums)
            if not (r[0] == 0 and r[1] == 0)]
    chunks = [(c, budgets, long_budgets, max_ticks) for c in core.split(rows, 128)]
    part = core.fan_out(ctx, _rows_chunk, chunks)
    part.merge(core.fan_out(ctx, _boundary_chunk, core.split(boundary_rows(ctx), 64)))
    part.merge(core.fan_out(ctx, _turn_chunk, core.split(turn_rows(ctx), 64)))
    _cannot_move(part)
    from .. import calcseq                 # pylint: disable=import-outside-toplevel
    part.merge(calcseq.explore(ctx, ['calculate_lm']))
    from .. import callforms              # pylint: disable=import-outside-toplevel
    part.merge(callforms.explore("C03"))
    cnt = part.counters
    coverage = {
        "states": cnt.get("states", 0),
        "transitions": cnt.get("states", 0),
        "traces_validated_against_impl": cnt.get("impl_cases", 0),
        "evaluations": cnt.get("impl_cases", 0) + cnt.get("cannot_move_cases", 0),
        "distinct_nontrivial": cnt.get("nontrivial", 0),
        "rule": "LM machine stepped once (up to max_ticks) from every (rate, accel, accum|clear) "
                "of the lattice; each budget s first reached at tick k gives the oracle "
                "(k, pos_k, acc_k) for calculate_lm(s, ...), its legacy mirror and moveTimeLM; "
                "budgets not reached in max_ticks use the exact bisection oracle; boundary-directed "
                "family: budgets up to 2^26 (2^30) x rates x accels with start accumulators "
                "constructed so that the budget completes exactly on a tick, one count before "
                "and one count after; turn-directed family: reversing moves (6 (10) rates x 6 (11) "
                "accelerations, odd and even, both directions) with start accumulators that put "
                "the total at the turning tick and its neighbours 0, 1, 2, 3, a quarter, a half "
                "and the whole turning-tick number of counts short of / past a step boundary, "
                "budgets completed at the turn and 1..3 steps after it; non-trivial = "
                "moves that reverse direction before the budget is reached",
        "samples": core.rotate(part.samples, ctx.seed, 4),
        "rows": cnt.get("rows", 0),
        "budgets": budgets,
        "long_budgets": long_budgets,
        "long_cases": cnt.get("long_cases", 0),
        "boundary_directed_cases": cnt.get("boundary_directed_cases", 0),
        "turn_directed_cases": cnt.get("turn_directed_cases", 0),
        "steps_in_both_directions_cases": cnt.get("steps_in_both_directions", 0),
        "exact_boundary_hits": cnt.get("exact_boundary_hits", 0),
        "cannot_move_cases": cnt.get("cannot_move_cases", 0),
        "model_conformance_checks": cnt.get("model_conformance_checks", 0),
        "mismatches_by_class": {k: v for k, v in sorted(cnt.items()) if k.startswith("mismatch_")},
        "alphabet_sizes": {"rate": len(rates), "accel": len(accels), "accum": len(accums)},
        "call_histories_siblings_then_twice": cnt.get("calc_histories", 0),
        "exhaustive": True,
    }
    assumptions = [
        "motor steps taken = sum over ticks of |position change| under the C01 recurrence",
        "domain: every per-tick |rate| <= 2^31-1 up to the tick that completes the budget",
        "exhaustive over the stated lattice only",
    ]
    return {"part": part, "coverage": coverage, "assumptions": assumptions}


def replay(case):
    if case.get("kind") == "callform":
        from .. import callforms          # pylint: disable=import-outside-toplevel
        return callforms.replay(case)
    if str(case.get("kind")).startswith("calc_"):
        from .. import calcseq             # pylint: disable=import-outside-toplevel
        return calcseq.replay(case)
    if case["kind"] == "cannot_time":
        _calc, ebb_motion = _lib()
        try:
            got = ebb_motion.moveTimeLM(case["rate"], case["steps"], case["accel"])
        except Exception as exc:                # pylint: disable=broad-except
            got = repr(exc)
        return [] if got == 0 else [f"moveTimeLM(rate, steps, accel) with {(case['rate'], case['steps'], case['accel'])} = "
                                    f"{got!r}; a request that cannot move must report duration 0"]
    steps, rate, accel, accum = case["steps"], case["rate"], case["accel"], case["accum"]
    if case["kind"] == "cannot":
        ebb_calc, _m = _lib()
        try:
            got = tuple(ebb_calc.calculate_lm(steps, rate, accel, accum))
        except Exception as exc:                # pylint: disable=broad-except
            got = repr(exc)
        return [] if got == (0, 0, 0) else [f"calculate_lm{(steps, rate, accel, accum)} = {got!r}"]
    res = lm_stepped(steps, rate, accel, accum, 8192)
    if res[0] == "long":
        res = lm_closed(steps, rate, accel, accum)
    if res[0] != "done":
        return []
    expect = res[1:]
    msgs = [m for _c, m in check_lm(steps, rate, accel, accum, expect)]
    msgs += [m for _c, m in check_mirror(steps, rate, accel, accum, expect)]
    return msgs
