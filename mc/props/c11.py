"""C11 - viewBox scaling follows the SVG preserveAspectRatio rules.

Full product of viewBox geometry x document size x {none + 9 alignments} x {meet, slice,
absent} x {defer or not} x spelling variants, compared *through the mapping*
x -> (x + o_x) * s_x at the four viewBox corners with the SVG 1.1 (7.8) rule computed in
Fractions.  Invalid inputs must give the identity transform.
"""
import itertools
from fractions import Fraction as F

from .. import core

PROPERTY = "C11"
ALIGNS = ["none"] + [f"x{a}Y{b}" for a in ("Min", "Mid", "Max") for b in ("Min", "Mid", "Max")]
IDENT = (1, 1, 0, 0)


def _lib():
    from plotink import plot_utils          # pylint: disable=import-outside-toplevel
    return plot_utils


def reference(vbox, doc, align, mos):
    """SVG 1.1 7.8: returns (s_x, s_y, t_x, t_y) with x_page = s_x * x_user + t_x."""
    v_x, v_y, v_w, v_h = [F(v) for v in vbox]
    d_w, d_h = F(doc[0]), F(doc[1])
    if align == "none":
        s_x, s_y = d_w / v_w, d_h / v_h
        return s_x, s_y, -v_x * s_x, -v_y * s_y
    ratio_x, ratio_y = d_w / v_w, d_h / v_h
    scale = max(ratio_x, ratio_y) if mos == "slice" else min(ratio_x, ratio_y)
    slack_x, slack_y = d_w - v_w * scale, d_h - v_h * scale
    frac_x = {"min": F(0), "mid": F(1, 2), "max": F(1)}[align[1:4].lower()]
    frac_y = {"min": F(0), "mid": F(1, 2), "max": F(1)}[align[5:8].lower()]
    return scale, scale, -v_x * scale + frac_x * slack_x, -v_y * scale + frac_y * slack_y


def par_text(align, mos, defer, style):
    words = []
    if defer:
        words.append("defer")
    words.append(align)
    if mos is not None:
        words.append(mos)
    text = " ".join(words)
    if style == "lower":
        return text.lower()
    if style == "upper":
        return text.upper()
    if style == "title":                        # None, Xmidymid Meet, Defer ...
        return text.title()
    if style == "swap":
        return text.swapcase()
    if style.startswith("bits"):                # every upper/lower pattern of the first 4 letters
        bits = int(style[4:])
        head = "".join(ch.upper() if bits >> k & 1 else ch.lower()
                       for k, ch in enumerate(words[-1 if mos is None else -2][:4]))
        words = list(words)
        words[-1 if mos is None else -2] = head + words[-1 if mos is None else -2][4:]
        return " ".join(words)
    if style == "comma":
        return ",".join(words)
    if style == "blanks":
        return "  " + "   ".join(words) + " \t"
    if style in WHITESPACE_STYLES:              # every XML white space character separates
        return WHITESPACE_STYLES[style].join(words)
    return text


WHITESPACE_STYLES = {"tab": "\t", "newline": "\n", "crlf": "\r\n", "nl_indent": "\n    ",
                     "comma_nl": ",\n"}


def vb_text(vbox, style):
    toks = [repr(v) if isinstance(v, float) else str(v) for v in vbox]
    if style == "g":                            # as written by a "%g"-style exporter
        return " ".join("%g" % v for v in vbox)
    if style == "comma":
        return ",".join(toks)
    if style == "mixed":
        return f" {toks[0]} , {toks[1]},{toks[2]}   {toks[3]} "
    if style in WHITESPACE_STYLES:
        return WHITESPACE_STYLES[style].join(toks)
    return " ".join(toks)


# A fixed, fully explicit call made immediately before every call under test: the answer to a
# call must depend on its own arguments only, not on what an earlier call asked for (a default
# that is overwritten in place, a cache keyed too coarsely).
COND_ARGS = ("1 2 4 3", "xMaxYMin slice", 8, 8)
COND_WANT = (F(8, 3), F(8, 3), F(-2), F(-2))   # = reference((1,2,4,3), (8,8), xMaxYMin, slice)


def conditioning_call(plot_utils):
    """Returns None, or a description of a wrong answer to the conditioning call itself."""
    core.rejected(plot_utils.vb_scale, "0 0 10 10", "xMinYMax slice", "wide", 5)    # float("wide")
    core.rejected(plot_utils.vb_scale, 7, None, 5, 5)                                # not a string
    got = plot_utils.vb_scale(*COND_ARGS)
    if any(abs(F(g) - w) > F(1, 10 ** 9) for g, w in zip(got, COND_WANT)):
        return f"vb_scale{COND_ARGS!r} = {tuple(got)!r}, expected {tuple(map(float, COND_WANT))!r}"
    return None


def check_valid(vbox, doc, align, mos, defer, style, vb_style, p_a_r_override=False):
    plot_utils = _lib()
    try:
        cond = conditioning_call(plot_utils)
    except Exception as exc:                # pylint: disable=broad-except
        cond = f"vb_scale{COND_ARGS!r} raised {exc!r}"
    if cond:
        return [("conditioning", cond + " (asked right before/after other calls in this process)")]
    if p_a_r_override is not False:
        par = p_a_r_override
        eff_align, eff_mos = "xMidYMid", "meet"
    else:
        par = par_text(align, mos, defer, style)
        eff_align, eff_mos = align, mos or "meet"
    text = vb_text(vbox, vb_style)
    desc = f"vb_scale({text!r}, {par!r}, {doc[0]!r}, {doc[1]!r})"
    try:
        got = plot_utils.vb_scale(text, par, doc[0], doc[1])
        s_x, s_y, o_x, o_y = [F(v) for v in got]
    except Exception as exc:                # pylint: disable=broad-except
        return [("raise", f"{desc} raised {type(exc).__name__}: {exc}")]
    r_sx, r_sy, r_tx, r_ty = reference(vbox, doc, eff_align, eff_mos)
    v_x, v_y, v_w, v_h = [F(v) for v in vbox]
    # relative to the page (no absolute floor: a page may be 1e-60 or 1e60 units wide)
    scale = max(F(doc[0]), F(doc[1]), abs(r_tx), abs(r_ty))
    tol = scale * F(1, 10 ** 9)
    out = []
    for c_x in (v_x, v_x + v_w):
        got_x, want_x = (c_x + o_x) * s_x, r_sx * c_x + r_tx
        if abs(got_x - want_x) > tol:
            out.append(("map_x", f"{desc} = {got!r} maps viewBox x={float(c_x)} to "
                        f"{float(got_x)}; SVG 1.1 prescribes {float(want_x)}"))
            break
    for c_y in (v_y, v_y + v_h):
        got_y, want_y = (c_y + o_y) * s_y, r_sy * c_y + r_ty
        if abs(got_y - want_y) > tol:
            out.append(("map_y", f"{desc} = {got!r} maps viewBox y={float(c_y)} to "
                        f"{float(got_y)}; SVG 1.1 prescribes {float(want_y)}"))
            break
    return out


INVALID = [
    (None, None, 5, 5), ("", None, 5, 5), ("   ", None, 5, 5), ("0 0 10", None, 5, 5),
    ("0 0", "none", 5, 5), ("0 0 0 10", None, 5, 5), ("0 0 10 0", None, 5, 5),
    ("0 0 -1 10", None, 5, 5), ("0 0 10 -3", "xMinYMin", 5, 5), ("0 0 x 10", None, 5, 5),
    ("a b c d", None, 5, 5), ("0 0 10 ten", "none", 5, 5), ("1,2,,", None, 5, 5),
    ("0 0 10 10", None, 0, 5), ("0 0 10 10", None, 5, 0), ("0 0 10 10", "none", -1, 5),
    ("0 0 10 10", "xMaxYMax slice", 5, -2), ("0 0 10 10", None, 0, 0),
    ("0 0 1e 10", None, 5, 5), ("0 0 10 10px", None, 5, 5), ("0;0;10;10", None, 5, 5),
]


# every sign pattern of the four sizes with at least one non-positive (two negative sizes have a
# positive ratio and a positive product; a zero next to a negative one divides by zero)
_SIZES = (-3, -1, -0.5, 0, 0.0, 1, 2.5, 10)
_fmt = lambda v: repr(v)                                # pylint: disable=unnecessary-lambda-assignment
INVALID += [(f"{mx} 1 {_fmt(w)} {_fmt(h)}", par, dw, dh)
            for w, h, dw, dh in itertools.product(_SIZES, repeat=4)
            if min(w, h, dw, dh) <= 0
            for mx, par in ((0, None), (-4, "none"), (2, "xMaxYMin slice"), (0, "xMinYMax meet"))]


# every way SVG lets a number be written (leading '.', explicit '+', trailing '.', exponents)
SPELLED = [(".5", 0.5), ("-.25", -0.25), ("+3", 3), ("5.", 5), ("1e1", 10), ("2.5E+1", 25),
           ("1e-1", 0.1), ("+.5e1", 5), ("-0", 0), ("00012.50", 12.5), ("4E0", 4)]


def grammar_tokens():
    """The SVG number grammar spelt out: sign x mantissa form x exponent form, every combination
    (sign? (digits | digits '.' | '.' digits | digits '.' digits) ([eE] sign? digits)?)."""
    from decimal import Decimal           # pylint: disable=import-outside-toplevel
    out = []
    for sign in ("", "+", "-"):
        for mant in ("7", "12.", ".5", "2.5", "040", "1.250"):
            for exp in ("", "e1", "E1", "e+1", "E+1", "e-1", "E-1", "e0", "E-0", "E-2", "e02",
                        "E+02", "e-01"):
                text = sign + mant + exp
                out.append((text, float(Decimal(text))))
    return out


def _grammar_chunk(tokens):
    """Each spelling in each of the four positions, the other three numbers plain."""
    part = core.Part()
    plain = [("-3", -3), ("2", 2), ("10", 10), ("40", 40)]
    for token in tokens:
        for pos in range(4):
            if pos >= 2 and token[1] <= 0:
                continue
            four = tuple(token if k == pos else plain[k] for k in range(4))
            for par in (None, "xMaxYMin slice", "none", "xMidYMid meet"):
                for clause, msg in check_spelled(four, (30, 20), par):
                    part.violation(f"{clause}:grammar:{token[0]}:{pos}:{par}", msg,
                                   {"kind": "spelled", "tokens": [list(t) for t in four],
                                    "par": par, "doc": [30, 20]})
                part.count("valid_cases")
                part.count("spelled_cases")
                part.count("grammar_cases")
    return part


def check_spelled(tokens, doc, par):
    """tokens: four (text, value) pairs; the result must be that of the canonical spelling."""
    plot_utils = _lib()
    text = " ".join(t for t, _v in tokens)
    vbox = tuple(v for _t, v in tokens)
    desc = f"vb_scale({text!r}, {par!r}, {doc[0]!r}, {doc[1]!r})"
    try:
        cond = conditioning_call(plot_utils)
        got = plot_utils.vb_scale(text, par, doc[0], doc[1])
        want = plot_utils.vb_scale(vb_text(vbox, "space"), par, doc[0], doc[1])
    except Exception as exc:                # pylint: disable=broad-except
        return [("raise", f"{desc} raised {type(exc).__name__}: {exc}")]
    if cond:
        return [("conditioning", cond)]
    if tuple(got) != tuple(want):
        return [("spelling", f"{desc} = {tuple(got)!r}, but the same numbers written "
                 f"{vb_text(vbox, 'space')!r} give {tuple(want)!r}")]
    if vbox[2] > 0 and vbox[3] > 0 and tuple(got) == IDENT and \
            (vbox[0], vbox[1], vbox[2], vbox[3]) != (0, 0, doc[0], doc[1]):
        return [("spelling", f"{desc} = identity for a valid viewBox")]
    return []


def _spelled_chunk(firsts):
    part = core.Part()
    for first in firsts:
        for second in SPELLED[::3]:
            for width, height in itertools.product([s for s in SPELLED if s[1] > 0][::2], repeat=2):
                for par in (None, "xMaxYMin slice", "none"):
                    tokens = (first, second, width, height)
                    for clause, msg in check_spelled(tokens, (100, 60), par):
                        part.violation(f"{clause}:{[t for t, _v in tokens]}:{par}", msg,
                                       {"kind": "spelled", "tokens": [list(t) for t in tokens],
                                        "par": par})
                    part.count("valid_cases")
                    part.count("spelled_cases")
    return part


def check_invalid(case):
    plot_utils = _lib()
    desc = f"vb_scale{tuple(case)!r}"
    try:
        got = plot_utils.vb_scale(*case)
    except Exception as exc:                # pylint: disable=broad-except
        return [("invalid_raise", f"{desc} raised {type(exc).__name__}: {exc}; a malformed "
                 f"viewBox or non-positive size must yield the identity transform")]
    if tuple(got) != IDENT:
        return [("invalid", f"{desc} = {got!r}, expected the identity transform (1, 1, 0, 0)")]
    return []


def grid(ctx):
    min_x = [-5, 0, 3.5]
    min_y = [0, 2]
    widths = [1, 2, 3, 297]
    heights = [1, 2, 3, 210]
    docs = [1, 3, 100]
    if ctx.thorough:
        min_x += [-0.25]
        min_y += [-7.5]
        widths += [0.5, 1000]
        heights += [0.5, 7]
        docs += [0.25, 793.7]
    extra = 1 + abs(core.seeded_ints(ctx.seed, "c11.w", 1, 9, signed=False)[0])
    widths.append(extra)
    return min_x, min_y, widths, heights, docs


NEAR_SHAPES = [(1000, 1000.5), (1000, 999.5), (1000.5, 1000), (999.5, 1000), (1000, 1000.001),
               (1000, 999.999), (1000, 1000.0000001), (794, 1123), (1056, 816.5), (1000, 1000),
               (3, 3.0000003), (2.9999997, 3)]
NEAR_DOCS = [(1000, 1000), (793.7008, 1122.5197), (1056, 816), (11, 8.5), (3, 3), (100, 100.01)]


_BIG, _SMALL = 2.0 ** 200, 2.0 ** -200
SEPARATOR_CASES = [((0, 0, 100, 50), (200, 200)), ((-3, 2, 10, 40), (30, 20)),
                   ((1.5, -2.5, 4, 4), (8, 6)), ((0, 0, 7, 7), (7, 7)),
                   # the same pictures in absurd units (page and viewBox alike, and crosswise)
                   ((0.0, 0.0, 100 * _BIG, 50 * _BIG), (200 * _BIG, 200 * _BIG)),
                   ((-3 * _SMALL, 2 * _SMALL, 10 * _SMALL, 40 * _SMALL), (30 * _SMALL, 20 * _SMALL)),
                   ((1.5 * _BIG, -2.5 * _BIG, 4 * _BIG, 4 * _BIG), (8 * _SMALL, 6 * _SMALL)),
                   ((0.0, -_SMALL, 7 * _SMALL, 3 * _SMALL), (7 * _BIG, 7 * _BIG)),
                   # ... and in units whose *products* leave the float range (2^600, 2^-600):
                   # a viewBox taller than the page, and one wider
                   ((0.0, 0.0, 2.0 ** 600, 2.0 ** 601), (3 * 2.0 ** 600, 3 * 2.0 ** 600)),
                   ((0.0, 2.0 ** -600, 2.0 ** -599, 2.0 ** -600), (5 * 2.0 ** -600, 3 * 2.0 ** -600)),
                   ((-2.0 ** -600, 0.0, 2.0 ** -600, 2.0 ** -598), (3 * 2.0 ** -600, 3 * 2.0 ** -600))]


def _separator_chunk(cases):
    """Full product of separator / case spellings of both attributes (SVG: numbers and words
    are separated by white space - space, tab, LF, CR - and/or a comma)."""
    part = core.Part()
    par_styles = ["canon", "lower", "upper", "title", "swap", "comma", "blanks"] + \
        sorted(WHITESPACE_STYLES) + [f"bits{k}" for k in range(16)]
    vb_styles = ["space", "comma", "mixed"] + sorted(WHITESPACE_STYLES)
    for vbox, doc in cases:
        for align, mos, defer in itertools.product(ALIGNS, ("meet", "slice", None), (False, True)):
            for style, vb_style in itertools.product(par_styles, vb_styles):
                bad = check_valid(vbox, doc, align, mos, defer, style, vb_style)
                part.count("valid_cases")
                part.count("separator_cases")
                for clause, msg in bad:
                    part.violation(f"{clause}:sep:{align}:{mos}:{defer}:{style}:{vb_style}:{vbox}",
                                   msg, {"kind": "valid", "vbox": list(vbox), "doc": list(doc),
                                         "align": align, "mos": mos, "defer": defer,
                                         "style": style, "vb_style": vb_style})
    return part


def rounded_page_cases():
    """The viewBox restates the page size *rounded* the way an exporter writes numbers (six
    significant digits, three decimals, one decimal): nearly the identity, not quite - a page of
    210 x 297 mm at 96 px per inch is 793.7007874015749 x 1122.5196850393702."""
    pages = [(793.7007874015749, 1122.5196850393702), (1234567, 2000), (816.0000001, 1056.25),
             (0.30000000000000004, 0.1), (1e-7 + 1e-15, 2e-7), (595.2755905511812, 841.8897637795276)]
    out = []
    for page in pages:
        for fmt in ("%g", "%.3f", "%.1f", "%.8g", "%.2e"):
            vbox = (0, 0, float(fmt % page[0]), float(fmt % page[1]))
            if vbox[2] > 0 and vbox[3] > 0:
                out.append((vbox, page))
    return out


def far_origin_cases():
    """Valid viewBoxes whose origin is 2^53 times their size and more (a tile of a huge map):
    min + size is not representable, the size itself is perfectly ordinary."""
    out = []
    for vbox in ((1e16, 0, 1, 1), (0, -1e17, 8, 4), (9007199254740993, 0, 1, 2), (4e16, 4e16, 2, 2),
                 (-2.0 ** 60, 2.0 ** 60, 3, 5), (1e300, 0, 1, 1)):
        for doc in ((200, 300), (30, 20)):
            out.append((vbox, doc))
    return out


def _rounded_chunk(cases):
    part = core.Part()
    for vbox, doc in cases:
        for align, mos in itertools.product(ALIGNS, ("meet", "slice", None)):
            for vb_style in ("space", "g", "comma"):
                if vb_style == "g" and any(float("%g" % v) != v for v in vbox):
                    continue                # "%g" would not spell this number, but another one
                bad = check_valid(vbox, doc, align, mos, False, "canon", vb_style)
                part.count("valid_cases")
                part.count("rounded_page_cases")
                for clause, msg in bad:
                    part.violation(f"{clause}:rounded:{align}:{mos}:{vb_style}:{vbox}:{doc}", msg,
                                   {"kind": "valid", "vbox": list(vbox), "doc": list(doc),
                                    "align": align, "mos": mos, "defer": False,
                                    "style": "canon", "vb_style": vb_style})
    return part


def _chunk(args):
    vboxes, docs = args
    part = core.Part()
    styles = ["canon", "lower", "upper", "comma", "blanks", "title", "swap"]
    for vbox in vboxes:
        for doc in (docs if docs and isinstance(docs[0], tuple) else
                    itertools.product(docs, docs)):
            combos = 0
            for align in ALIGNS:
                for mos in ("meet", "slice", None):
                    for defer in (False, True):
                        style = styles[combos % len(styles)]
                        vb_style = ("space", "comma", "mixed")[combos % 3]
                        combos += 1
                        bad = check_valid(vbox, doc, align, mos, defer, style, vb_style)
                        part.count("valid_cases")
                        if align != "none" and F(doc[1]) * F(vbox[2]) != F(doc[0]) * F(vbox[3]):
                            part.count("nontrivial")     # aspect ratios differ: alignment matters
                        for clause, msg in bad:
                            part.violation(f"{clause}:{align}:{mos}:{vbox}:{doc}", msg,
                                           {"kind": "valid", "vbox": list(vbox), "doc": list(doc),
                                            "align": align, "mos": mos, "defer": defer,
                                            "style": style, "vb_style": vb_style})
            for par in (None, "", "   "):
                bad = check_valid(vbox, doc, None, None, False, None, "space", p_a_r_override=par)
                part.count("valid_cases")
                for clause, msg in bad:
                    part.violation(f"{clause}:default:{par!r}:{vbox}:{doc}", msg,
                                   {"kind": "default", "vbox": list(vbox), "doc": list(doc),
                                    "par": par})
            # document sizes handed over as text, as read from SVG attributes
            bad = check_valid(vbox, (str(doc[0]), str(doc[1])), "xMaxYMin", "slice", False,
                              "canon", "space")
            part.count("valid_cases")
            for clause, msg in bad:
                part.violation(f"{clause}:strdoc:{vbox}:{doc}", msg,
                               {"kind": "valid", "vbox": list(vbox),
                                "doc": [str(doc[0]), str(doc[1])], "align": "xMaxYMin",
                                "mos": "slice", "defer": False, "style": "canon",
                                "vb_style": "space"})
    if vboxes:
        part.sample({"viewBox": list(vboxes[0]), "document_sizes": list(docs),
                     "aligns": len(ALIGNS), "meetOrSlice": ["meet", "slice", None]}, limit=1)
    return part


def run(ctx):
    min_x, min_y, widths, heights, docs = grid(ctx)
    vboxes = list(itertools.product(min_x, min_y, widths, heights))
    jobs = [(chunk, docs) for chunk in core.split(vboxes, 32)]
    # aspect ratios of page and viewBox that nearly (or exactly) coincide: the meet/slice and
    # fill-X/fill-Y decisions sit on this boundary
    near = [(m_x, 0, w, h) for m_x in (0, -5) for (w, h) in NEAR_SHAPES]
    jobs += [(chunk, NEAR_DOCS) for chunk in core.split(near, 12)]
    part = core.fan_out(ctx, _chunk, jobs)
    part.merge(core.fan_out(ctx, _spelled_chunk, [[sp] for sp in SPELLED]))
    part.merge(core.fan_out(ctx, _grammar_chunk, core.split(grammar_tokens(), 16)))
    part.merge(core.fan_out(ctx, _separator_chunk, [[case] for case in SEPARATOR_CASES]))
    part.merge(core.fan_out(ctx, _rounded_chunk, core.split(rounded_page_cases(), 8)))
    part.merge(core.fan_out(ctx, _rounded_chunk, core.split(far_origin_cases(), 4)))
    for case in INVALID:
        for clause, msg in check_invalid(case):
            part.violation(f"{clause}:{case!r}", msg, {"kind": "invalid", "case": list(case)})
        part.count("invalid_cases")
    from .. import callforms              # pylint: disable=import-outside-toplevel
    part.merge(callforms.explore("C11"))
    cnt = part.counters
    total = cnt.get("valid_cases", 0) + cnt.get("invalid_cases", 0)
    coverage = {
        "states": total,
        "transitions": total,
        "traces_validated_against_impl": total,
        "evaluations": total,
        "distinct_nontrivial": cnt.get("nontrivial", 0),
        "rule": "viewBox (min-x, min-y, width, height) x document (w, h) x {none + 9 aligns} x "
                "{meet, slice, absent} x {defer, not} with spelling/separator variants rotated "
                "over the product, plus absent/empty preserveAspectRatio and textual sizes; a family "
                "of pages and viewBoxes whose aspect ratios differ by 1e-7..1e-3 relative or not "
                "at all (24 viewBoxes x 6 pages); viewBox numbers in every SVG spelling (leading "
                "'.', '+', trailing '.', exponents) against the canonical spelling; the full "
                "product of 10 x 8 separator/case spellings of the two attributes (space, comma, "
                "tab, LF, CRLF, indented line breaks) for 11 geometries (seven of them in units of 2^+-200 / 2^+-600) x all 60 settings; malformed "
                "viewBoxes and the sign lattice of the four sizes; non-trivial = uniform-scale cases whose aspect ratios differ "
                "(alignment and meet/slice change the answer)",
        "samples": core.rotate(part.samples, ctx.seed, 4),
        "invalid_cases": cnt.get("invalid_cases", 0),
        "separator_cases": cnt.get("separator_cases", 0),
        "exhaustive": True,
    }
    assumptions = ["nan/inf/underscore numerals (Python float extensions), more than four "
                   "viewBox tokens and unknown keywords are outside the quantifier",
                   "comparison through the mapping at the viewBox corners, relative 1e-9"]
    coverage["rule"] += ('; the SVG number grammar spelt out (3 signs x 6 mantissa forms x 13 exponent forms) in each of the four viewBox positions x 4 preserveAspectRatio values')
    return {"part": part, "coverage": coverage, "assumptions": assumptions}


def replay(case):
    if case.get("kind") == "callform":
        from .. import callforms          # pylint: disable=import-outside-toplevel
        return callforms.replay(case)
    if case["kind"] == "spelled":
        return [m for _c, m in check_spelled(tuple(tuple(t) for t in case["tokens"]),
                                             tuple(case.get("doc", (100, 60))), case["par"])]
    if case["kind"] == "invalid":
        return [m for _c, m in check_invalid(tuple(case["case"]))]
    vbox, doc = tuple(case["vbox"]), tuple(case["doc"])
    if case["kind"] == "default":
        bad = check_valid(vbox, doc, None, None, False, None, "space", p_a_r_override=case["par"])
    else:
        bad = check_valid(vbox, doc, case["align"], case["mos"], case["defer"], case["style"],
                          case["vb_style"])
    return [m for _c, m in bad]
