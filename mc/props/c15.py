"""C15 - firmware version gating uses numeric order and blocks unsupported boards.

(a) order: all version triples x all thresholds over a multi-digit component alphabet, through
    both layers' real min_version;
(b) handshake: EBB3.connect() with the enumerator and port constructor stubbed, every reply
    sequence of the identification handshake with <= bound deviations (banner kinds, late /
    silent / raising I/O, open failure), each leaf followed by requests, disconnect and
    further connect() calls - histories, not single calls;
(c) legacy feature gates against every board version around each threshold.
"""
import itertools

from .. import core
from ..ebb3drv import EBB_PORT, call, connect_env, probe_class, SerialException
from ..explore import Stats, explore, run_vector
from ..fakeserial import EBB3Board, FakePort, LegacyBoard, PortInfo, Profile

PROPERTY = "C15"
MIN = (3, 0, 2)
COMPONENTS = [0, 1, 2, 9, 10, 11, 99, 100, 123456]
PREFIX = "EBBv13_and_above EB Firmware Version "

# banner alphabet for the version probe; option 0 is the conforming minimum-version board
BANNERS = [
    ("min", PREFIX + "3.0.2"),
    ("new-3.0.10", PREFIX + "3.0.10"),
    ("new-10.0.0", PREFIX + "10.0.0"),
    ("old-3.0.1", PREFIX + "3.0.1"),
    ("old-2.10.0", PREFIX + "2.10.0"),
    ("old-2.8.1", PREFIX + "2.8.1"),
    ("non-EBB", "Hello from some other serial device"),
    ("silent", None),
    ("versionless", "EBBv13_and_above EB"),
    # another maker's controller that also announces a firmware version (new enough, even)
    ("foreign-versioned", "Acme Motion Controller Firmware Version 4.1.0"),
    # ... and one whose name merely *contains* the three letters, in another capitalisation
    ("foreign-pebble", "Pebble Firmware Version 4.3.0"),
    # ... or spells them with other bytes in between (a 16-bit encoding, line noise)
    ("foreign-nul", "E\x00B\x00B Firmware Version 3.0.2"),
    ("foreign-spaced", "E B B Firmware Version 9.9.9"),
    # a device (or an EBB with a half-typed command in its buffer) that answers with an error line
    ("error-line", "!8 Err: Unknown command 'v'"),
    # a release candidate of the minimum itself: older than the minimum
    ("old-3.0.2rc1", PREFIX + "3.0.2rc1"),
]
GOOD = {"min", "new-3.0.10", "new-10.0.0"}

HANDSHAKE = Profile(write_exc=("SerialException", "SerialException_EBUSY"),
                    read_exc=("SerialException", "SerialException_EBUSY"),
                    latency=(0, 1, 26), content=("err",), silent=True, read_window=2,
                    close_exc=True, flush_exc=True)


class ProbeBoard(EBB3Board):
    """EBB3Board whose reply to the version probe is an environment choice."""

    def __init__(self, chooser, tag):
        super().__init__(version="3.0.2", nickname="Axi")
        self.chooser = chooser
        self.tag = tag
        self.served = []                # banner kinds sent in reply to probes
        self.probes = 0

    def handle(self, request):
        name = request.strip().split(",")[0].upper()
        if name == "V":
            self.probes += 1
            self.requests.append(request)
            choice = self.chooser.choose(f"{self.tag}banner{self.probes}", len(BANNERS))
            kind, text = BANNERS[choice]
            self.served.append(kind)
            if text is None:
                return []
            return [("v," + text) if self.future else text]
        return super().handle(request)


AFTER_OPS = [("command", ("SM,10,1,1",)), ("query", ("QM",)), ("xy_move", (1, 2, 3)),
             ("var_write", (1, 2)), ("query_statusbyte", ()), ("reboot", ())]

PORTS = {
    None: [EBB_PORT],
    "Axi": [PortInfo("/dev/ttyUSB9", "FT232 adapter", "USB VID:PID=0403:6001"), EBB_PORT],
    "Nope": [EBB_PORT],
}


def run_handshake(chooser, script, given_name):
    """script: list of steps among 'connect', 'disconnect', ('op', i).  Returns violations etc."""
    obj = probe_class()()
    ports = []
    boards = []
    viols = []
    obs = []
    state = {"n": 0}

    def factory(_name):
        state["n"] += 1
        tag = f"c{state['n']}:"
        if chooser.choose(tag + "open", 2):
            raise SerialException("could not open port (injected)")
        board = ProbeBoard(chooser, tag)
        port = FakePort(board, chooser, HANDSHAKE, tag=tag)
        ports.append(port)
        boards.append(board)
        return port

    history = []
    ever_true_clean = False
    for step in script:
        where = f"given_name={given_name!r} after {history}: "
        if step == "connect":
            err_before = obj.err
            opened_before = len(ports)
            with connect_env(factory, PORTS[given_name]):
                ret, exc = call(obj, "connect", (given_name,))
            new_port = ports[-1] if len(ports) > opened_before else None
            served = boards[-1].served if new_port else []
            faults = [(k, v) for (_t, k, v) in new_port.faults] if new_port else []
            supported = any(k in GOOD for k in served)
            desc = f"connect() [banners served {served}, faults {faults}]"
            history.append(f"{desc} -> {ret!r}" + (f" raised {type(exc).__name__}" if exc else ""))
            already = new_port is None and obj.port is not None       # "already connected" path
            if already:
                # connect() on an object that kept a port from an earlier attempt
                prev_supported = any(k in GOOD for k in boards[-1].served) if boards else False
                if ret is True and not prev_supported:
                    viols.append(("reconnect_true", f"{where}connect() returned True for a port "
                                  f"kept open from an attempt whose device never identified as a "
                                  f"supported EBB (banners {boards[-1].served if boards else []})"))
            if ret is True and obj.err is None and new_port is not None and not supported:
                viols.append(("true_unverified", f"{where}{desc} returned True with no error "
                              f"although no probe reply showed an EBB with firmware >= 3.0.2"))
            unsupported_class = new_port is not None and not supported and not faults and \
                len(served) >= 1 and served[-1] not in GOOD
            open_failed = new_port is None and not already and given_name != "Nope"
            if unsupported_class or open_failed or (given_name == "Nope" and not already):
                # old firmware / non-EBB / silent / version-less / cannot open / not found
                cls = "open-failed" if open_failed else \
                    ("not-found" if given_name == "Nope" else served[-1])
                if exc is None and ret is not False:
                    viols.append((f"unsupported_ret:{cls}", f"{where}{desc} returned {ret!r} for "
                                  f"device class {cls}; must be False"))
                if exc is None and obj.err is None:
                    viols.append((f"unsupported_err:{cls}", f"{where}{desc} recorded no error for "
                                  f"device class {cls}"))
                if exc is None and obj.port is not None:
                    viols.append((f"unsupported_open:{cls}", f"{where}{desc}: the port is still "
                                  f"held open after the device was rejected ({cls})"))
            if new_port is not None and not supported:
                beyond = [w for w in new_port.write_attempts if w != b"v\r"]
                if beyond or len(new_port.write_attempts) > 2:
                    viols.append(("beyond_probe", f"{where}{desc}: an unverified device received "
                                  f"{new_port.write_attempts!r} (only up to two version probes "
                                  f"are allowed)"))
            if new_port is not None and supported and not faults and set(served) <= GOOD \
                    and err_before is None:
                if ret is not True or obj.err is not None or exc is not None:
                    viols.append(("supported_rejected", f"{where}{desc}: a conforming supported "
                                  f"board was not accepted: ret={ret!r} err={obj.err!r} exc={exc!r}"))
                else:
                    ever_true_clean = True
            obs.append(("connect", ret, type(exc).__name__ if exc else None, obj.err is None,
                        obj.port is None))
        elif step == "disconnect":
            call(obj, "disconnect", ())
            history.append("disconnect()")
            obs.append(("disconnect", obj.port is None))
        else:
            method, args = AFTER_OPS[step[1]]
            # is the object currently holding a port to a device that never verified?
            holding_unverified = obj.port is not None and boards and \
                not any(k in GOOD for k in boards[-1].served)
            before = [len(p.write_attempts) for p in ports]
            err_before = obj.err
            ret, exc = call(obj, method, args)
            wrote = [p.write_attempts[n:] for p, n in zip(ports, before) if p.write_attempts[n:]]
            history.append(f"{method}{args} -> {ret!r}")
            if (holding_unverified or err_before is not None) and wrote:
                viols.append((f"request_after_reject:{method}", f"{where}{method}{args} handed "
                              f"{wrote!r} to a device that was rejected or never verified"))
            obs.append((method, repr(ret), type(exc).__name__ if exc else None))
    snap = (obj.err, obj.version, obj.name, obj.port is None)
    return viols, tuple(obs), snap, ever_true_clean


SCRIPTS_QUICK = [
    ["connect"] + [("op", i) for i in range(len(AFTER_OPS))],
    ["connect", "connect", ("op", 0), ("op", 1)],
    ["connect", "disconnect", "connect", ("op", 0), ("op", 2)],
]


def _hs_job(args):
    script, given_name, bound = args
    part = core.Part()
    stats = Stats()

    def run(chooser):
        viols, obs, snap, clean = run_handshake(chooser, script, given_name)
        for key, msg in viols:
            part.violation(key, msg, {"kind": "handshake", "script": script,
                                      "given_name": given_name, "vector": chooser.vector()})
        part.add("states", core.digest((obs, snap)))
        part.count("transitions", len(script))
        if clean:
            part.count("accepted_supported_board")
        if chooser.deviations():
            part.count("faulted_executions")
            if chooser.deviations() == bound and len(part.samples) < 1:
                part.sample({"script": [str(s) for s in script], "given_name": given_name,
                             "environment_vector": chooser.vector(),
                             "observed": [list(map(str, o)) for o in obs]})
        return core.digest(obs)

    explore(run, bound, stats)
    part.count("handshake_executions", stats.executions)
    part.sets.setdefault("outcomes", set()).update(stats.outcomes)
    return part


# ----------------------------------------------------------------------------- (a) order

def _order_job(triples):
    from plotink import ebb_serial          # pylint: disable=import-outside-toplevel
    core.quiet_legacy_logger()
    part = core.Part()
    obj = probe_class()()
    thresholds = list(itertools.product(COMPONENTS, repeat=3))
    for ver in triples:
        text = ".".join(map(str, ver))
        board = LegacyBoard(version=text)
        obj.version = obj.version_parsed = None
        obj.parse_version(PREFIX + text)
        for thr in thresholds:
            thr_text = ".".join(map(str, thr))
            want = ver >= thr
            port = FakePort(board)
            try:
                got_legacy = ebb_serial.min_version(port, thr_text)
                got_ebb3 = obj.min_version(thr_text)
            except Exception as exc:        # pylint: disable=broad-except
                got_legacy = got_ebb3 = repr(exc)
            part.count("order_pairs")
            if ver != thr and sorted([text, thr_text]) != sorted([text, thr_text],
                                                                 key=lambda s: tuple(map(int, s.split(".")))):
                part.count("nontrivial_order")      # string order and numeric order disagree
            if got_legacy is not want or got_ebb3 is not want:
                part.violation(f"order:{text}>={thr_text}", f"device version {text} vs threshold "
                               f"{thr_text}: numeric order says {want}, legacy min_version = "
                               f"{got_legacy!r}, EBB3.min_version = {got_ebb3!r}",
                               {"kind": "order", "version": text, "threshold": thr_text})
    return part


# ------------------------------------------------------------------ (a'') two questions in a row

def _valid_version(text):
    parts = text.split(".")
    return len(parts) == 3 and all(p.isdigit() and (p == "0" or not p.startswith("0")) for p in parts)


def question_histories():
    """Two version questions asked one after the other in one process, the second judged: pairs
    (board version, threshold) that a careless memo would confuse - the two texts written
    together read the same when divided elsewhere ("2.8.11" + "0.0.0" = "2.8.1" + "10.0.0"),
    the two texts swapped, the same numbers written with other separators.  Both orders."""
    comps = ("0", "1", "2", "10", "11", "12", "21", "110")
    haves = [f"2.8.{c}" for c in comps] + [f"{c}.5.1" for c in comps if c != "0"] + ["3.0.2", "2.10.0"]
    needs = [f"{c}.0.0" for c in comps] + [f"{c}.5.5" for c in comps] + ["2.5.5", "3.0.2"]
    out = []
    for have in haves:
        for need in needs:
            joined = have + need
            for cut in range(5, len(joined) - 4):
                other = (joined[:cut], joined[cut:])
                if other != (have, need) and _valid_version(other[0]) and _valid_version(other[1]):
                    out.append(((have, need), other))
                    out.append((other, (have, need)))
            if have != need:
                out.append(((have, need), (need, have)))
    return list(dict.fromkeys(out))


def check_question_history(first, second):
    from plotink import ebb_serial          # pylint: disable=import-outside-toplevel
    core.quiet_legacy_logger()
    answers = []
    for have, need in (first, second):
        obj = probe_class()()
        obj.parse_version(PREFIX + have)
        try:
            answers.append((ebb_serial.min_version(FakePort(LegacyBoard(version=have)), need),
                            obj.min_version(need)))
        except Exception as exc:            # pylint: disable=broad-except
            answers.append((repr(exc), repr(exc)))
    have, need = second
    want = tuple(map(int, have.split("."))) >= tuple(map(int, need.split(".")))
    if answers[1] != (want, want):
        return [f"board {have} asked for at least {need} right after board {first[0]} was asked "
                f"for at least {first[1]}: numeric order says {want}, legacy min_version = "
                f"{answers[1][0]!r}, EBB3.min_version = {answers[1][1]!r}"]
    return []


def _question_job(items):
    part = core.Part()
    for first, second in items:
        part.count("order_pairs")
        part.count("question_histories")
        for msg in check_question_history(first, second):
            part.violation(f"order_after:{first}:{second}", msg,
                           {"kind": "question_history", "first": list(first),
                            "second": list(second)})
    return part


# ------------------------------------------------------------------ (a') several boards alive

PAIR_VERSIONS = ["2.9.9", "2.10.0", "3.0.1", "3.0.2", "3.0.10", "3.1.0", "10.0.0"]
PAIR_THRESHOLDS = ["2.10.0", "3.0.2", "3.0.5", "3.0.10", "3.1", "9.9.9"]


def check_pair(ver_a, ver_b, thresholds):
    """Two EBB3 objects, two boards: a, b, a again - each answer is about that object's board."""
    from plotink import ebb_serial          # pylint: disable=import-outside-toplevel
    core.quiet_legacy_logger()
    key = lambda text: tuple(map(int, text.split(".")))     # pylint: disable=unnecessary-lambda-assignment
    objs = []
    for ver in (ver_a, ver_b):
        obj = probe_class()()
        obj.parse_version(PREFIX + ver)
        objs.append((ver, obj, FakePort(LegacyBoard(version=ver))))
    out = []
    for thr in thresholds:
        for ver, obj, port in (objs[0], objs[1], objs[0]):
            want = key(ver) >= key(thr) + (0,) * (3 - len(key(thr))) if len(key(thr)) < 3 \
                else key(ver) >= key(thr)
            try:
                got = (ebb_serial.min_version(port, thr), obj.min_version(thr))
            except Exception as exc:        # pylint: disable=broad-except
                got = repr(exc)
            if got != (want, want):
                out.append((thr, f"boards {ver_a} and {ver_b} connected side by side; asked in turn "
                            f"(a, b, a) for thresholds {thresholds[:thresholds.index(thr) + 1]}: "
                            f"board {ver} >= {thr} is {want}, (legacy, EBB3) min_version = {got!r}"))
                return out
    return out


def _pair_job(pairs):
    part = core.Part()
    for ver_a, ver_b in pairs:
        for rot in range(len(PAIR_THRESHOLDS)):
            thresholds = PAIR_THRESHOLDS[rot:] + PAIR_THRESHOLDS[:rot]
            for thr, msg in check_pair(ver_a, ver_b, thresholds):
                part.violation(f"pair:{ver_a}:{ver_b}:{thr}", msg,
                               {"kind": "pair", "a": ver_a, "b": ver_b, "thresholds": thresholds})
            part.count("pair_histories")
            part.count("order_pairs", 3 * len(thresholds))
    return part


# ------------------------------------------------------- (b') a raised or lowered minimum
# "the supported minimum" is the class's public MIN_VERSION_STRING; software built on the class
# raises it by subclassing or by assigning it.  Where the attribute exists it must be the gate.
CUSTOM_MINIMA = ["3.0.10", "3.1.0", "3.2.0", "2.9.9", "2.10.0"]
CUSTOM_BOARDS = ["2.9.8", "2.9.9", "2.10.0", "3.0.1", "3.0.2", "3.0.9", "3.0.10", "3.1.0", "3.1.9",
                 "3.2.0", "10.0.0"]


def check_custom_minimum(minimum, version, how):
    base = probe_class()
    if not hasattr(base, "MIN_VERSION_STRING"):
        return []                           # no such public knob any more: nothing to demand
    if how == "subclass":
        obj = type("Raised", (base,), {"MIN_VERSION_STRING": minimum})()
    elif how == "class":
        obj = base()
    else:
        obj = base()
        obj.MIN_VERSION_STRING = minimum
    ports = []

    def factory(_name):
        ports.append(FakePort(EBB3Board(version=version, nickname="Axi")))
        return ports[-1]

    key = lambda text: tuple(map(int, text.split(".")))     # pylint: disable=unnecessary-lambda-assignment
    want = key(version) >= key(minimum)
    desc = f"MIN_VERSION_STRING = {minimum!r} ({how}), board firmware {version}: connect()"
    saved = base.MIN_VERSION_STRING
    try:
        if how == "class":
            base.MIN_VERSION_STRING = minimum
        with connect_env(factory):
            ret, exc = call(obj, "connect", ())
    finally:
        if how == "class":
            base.MIN_VERSION_STRING = saved
    if exc is not None:
        return [f"{desc} raised {type(exc).__name__}: {exc}"]
    sent = [w for p in ports for w in p.write_attempts]
    if want and (ret is not True or obj.err is not None):
        return [f"{desc} = {ret!r}, err = {obj.err!r}; the board is at least the minimum"]
    if not want:
        beyond = [w for w in sent if w.strip().lower() not in (b"v",)]
        if ret is not False or obj.err is None or beyond:
            return [f"{desc} = {ret!r}, err = {obj.err!r}, sent {sent!r}; the board is older than "
                    f"the minimum: False, an error and nothing beyond the version probe"]
    return []


# ----------------------------------------------------------------------------- (c) gates

GATES = [("servo_timeout", (2, 6, 0), b"SR,"), ("queryVoltage", (2, 2, 3), b"QC"),
         ("query_nickname", (2, 5, 5), b"QT"), ("write_nickname", (2, 5, 5), b"ST,"),
         ("reboot", (2, 5, 5), b"RB")]
GATE_VERSIONS = ["2.2.2", "2.2.3", "2.2.10", "2.5.4", "2.5.5", "2.5.10", "2.6.0", "2.9.9",
                 "2.10.0", "10.0.0", "nobanner", "silent"]


# the same features called the other ways their signatures allow (quiet forms, keywords, other
# argument values): the gate is a property of the feature, not of one way of calling it
GATE_FORMS = {
    "servo_timeout": {"quiet": lambda m, s, p: m.servo_timeout(p, 60000, 1, False),
                      "nostate": lambda m, s, p: m.servo_timeout(p, 0),
                      "nostate_quiet": lambda m, s, p: m.servo_timeout(p, 5000, None, False),
                      "keywords": lambda m, s, p: m.servo_timeout(port_name=p, timeout_ms=1,
                                                                  state=0, verbose=True)},
    "queryVoltage": {"quiet": lambda m, s, p: m.queryVoltage(p, False),
                     "keywords": lambda m, s, p: m.queryVoltage(port_name=p, verbose=True)},
    "query_nickname": {"quiet": lambda m, s, p: s.query_nickname(p, False),
                       "keywords": lambda m, s, p: s.query_nickname(port_name=p, verbose=False),
                       "loud": lambda m, s, p: s.query_nickname(p, True)},
    "write_nickname": {"empty": lambda m, s, p: s.write_nickname(p, ""),
                       "long": lambda m, s, p: s.write_nickname(p, "A name of 16 chr"),
                       "keywords": lambda m, s, p: s.write_nickname(port_name=p, nickname="B")},
}


def _more_forms():
    """Argument values a gate might be made to depend on: every kind of nickname text (blank,
    white space only, protocol words, version-like text, 16 characters) and the servo timeouts
    and power states at the ends of their ranges."""
    names = [" ", "  ", "\t", " \t ", "\n", "\r", "0", "None", "OK", "V", "2.5.5", "3.0.0", "ST",
             "QT", ",", "a,b", "A name of 16 chr", "A name of 17 char", "-", "x" * 64]
    for k, name in enumerate(names):
        GATE_FORMS["write_nickname"]["name%d" % k] = \
            (lambda m, s, p, name=name: s.write_nickname(p, name))
    for k, (ms, state) in enumerate(itertools.product((0, 1, 60000, 65535, (1 << 31) - 1, -1),
                                                      (None, 0, 1))):
        GATE_FORMS["servo_timeout"]["value%d" % k] = \
            (lambda m, s, p, ms=ms, state=state: m.servo_timeout(p, ms, state))


_more_forms()


def check_gate(feature, version, form=None):
    from plotink import ebb_motion, ebb_serial      # pylint: disable=import-outside-toplevel
    core.quiet_legacy_logger()
    gate = {g[0]: g for g in GATES}[feature]
    if version == "nobanner":
        board = LegacyBoard(banner="EBB board of unknown vintage")
    elif version == "silent":
        board = LegacyBoard(version=None)
    else:
        board = LegacyBoard(version=version)
    port = FakePort(board)
    calls = {"servo_timeout": lambda: ebb_motion.servo_timeout(port, 60000, 1),
             "queryVoltage": lambda: ebb_motion.queryVoltage(port),
             "query_nickname": lambda: ebb_serial.query_nickname(port),
             "write_nickname": lambda: ebb_serial.write_nickname(port, "Axi"),
             "reboot": lambda: ebb_serial.reboot(port)}
    if form is not None:
        form_call = GATE_FORMS[feature][form]
        calls = {feature: lambda: form_call(ebb_motion, ebb_serial, port)}
        feature = f"{feature}[{form}]"
    try:
        calls[feature.split("[")[0]]()
    except Exception as exc:                # pylint: disable=broad-except
        return [f"{feature} against board version {version} raised {exc!r}"]
    sent = any(w.startswith(gate[2]) for w in port.write_attempts)
    known = version not in ("nobanner", "silent")
    want = known and tuple(map(int, version.split("."))) >= gate[1]
    if sent != want:
        return [f"{feature} against board version {version}: feature command "
                f"{'sent' if sent else 'not sent'} ({port.write_attempts!r}); gate is "
                f">= {'.'.join(map(str, gate[1]))}"]
    return []


HISTORY_VERSIONS = ["2.2.2", "2.2.3", "2.5.4", "2.5.5", "2.5.10", "2.6.0", "2.8.1"]


def _feature_calls(port):
    from plotink import ebb_motion, ebb_serial      # pylint: disable=import-outside-toplevel
    return {"servo_timeout": lambda: ebb_motion.servo_timeout(port, 60000, 1),
            "queryVoltage": lambda: ebb_motion.queryVoltage(port),
            "query_nickname": lambda: ebb_serial.query_nickname(port),
            "write_nickname": lambda: ebb_serial.write_nickname(port, "Axi"),
            "reboot": lambda: ebb_serial.reboot(port)}


def _sent_feature(port, feature, since):
    gate = {g[0]: g for g in GATES}[feature]
    return any(w.startswith(gate[2]) for w in port.write_attempts[since:])


def _wanted(feature, version):
    gate = {g[0]: g for g in GATES}[feature]
    return tuple(map(int, version.split("."))) >= gate[1]


def check_gate_history(kind, first, second, ver_a, ver_b=None):
    """Gated features in a row.  kind 'same': both on one port / one board (ver_a).  Other
    kinds: `first` on board A, the port is closed ('closeport', 'closeport_raising', 'close'),
    a board B (ver_b) is opened under the same device name (re-plugged) and gets `second`."""
    from plotink import ebb_serial          # pylint: disable=import-outside-toplevel
    core.quiet_legacy_logger()
    port = FakePort(LegacyBoard(version=ver_a), os_name="/dev/ttyACM0")
    out = []
    desc = f"{first} on a {ver_a} board"
    try:
        _feature_calls(port)[first]()
        if _sent_feature(port, first, 0) != _wanted(first, ver_a):
            out.append(f"{desc}: feature command {'sent' if not _wanted(first, ver_a) else 'not sent'}"
                       f" ({port.write_attempts!r})")
        if kind == "same":
            target, ver = port, ver_a
            desc += f", then {second} on the same port"
        else:
            if kind == "closeport_raising":
                port.fail_next_close = True
            if kind == "close":
                port.close()
            else:
                ebb_serial.closePort(port)
            target = FakePort(LegacyBoard(version=ver_b), os_name="/dev/ttyACM0")
            ver = ver_b
            desc += (f", port closed ({kind}), a {ver_b} board plugged in under the same device "
                     f"name, then {second}")
        since = len(target.write_attempts)
        _feature_calls(target)[second]()
    except Exception as exc:                # pylint: disable=broad-except
        return [f"{desc}: raised {type(exc).__name__}: {exc}"]
    if _sent_feature(target, second, since) != _wanted(second, ver):
        out.append(f"{desc}: feature command {'sent' if not _wanted(second, ver) else 'not sent'} "
                   f"({target.write_attempts[since:]!r}); the board reports {ver}")
    return out


def gate_histories():
    feats = [g[0] for g in GATES if g[0] != "reboot"]
    out = [("same", f_1, f_2, ver, None) for f_1 in feats for f_2 in feats
           for ver in HISTORY_VERSIONS]
    for kind in ("closeport", "closeport_raising", "close"):
        out += [(kind, f_1, f_2, v_a, v_b) for f_1 in ("servo_timeout", "query_nickname")
                for f_2 in feats for v_a in ("2.8.1", "2.2.2") for v_b in HISTORY_VERSIONS]
    return out


def run(ctx):
    bound = ctx.pick(2, 3)
    jobs = []
    scripts = list(SCRIPTS_QUICK)
    if ctx.thorough:
        scripts.append(["connect", "disconnect", "connect", "disconnect", "connect", ("op", 0)])
    for script in scripts:
        for name in (None, "Axi", "Nope"):
            jobs.append(("hs", (script, name, bound)))
    triples = list(itertools.product(COMPONENTS, repeat=3))
    jobs += [("order", chunk) for chunk in core.split(triples, 32)]
    jobs += [("question", chunk) for chunk in core.split(question_histories(), 8)]
    jobs += [("pair", chunk) for chunk in core.split(
        list(itertools.permutations(PAIR_VERSIONS, 2)), 8)]
    part = core.fan_out(ctx, _dispatch, jobs)
    for minimum, version, how in itertools.product(CUSTOM_MINIMA, CUSTOM_BOARDS,
                                                   ("subclass", "instance", "class")):
        for msg in check_custom_minimum(minimum, version, how):
            part.violation(f"custom_min:{minimum}:{version}:{how}", msg,
                           {"kind": "custom_min", "minimum": minimum, "version": version,
                            "how": how})
        part.count("custom_minimum_cases")
        part.count("gate_cases")
    for item in gate_histories():
        for msg in check_gate_history(*item):
            part.violation(f"gate_history:{item}", msg, {"kind": "gate_history", "item": list(item)})
        part.count("gate_histories")
        part.count("gate_cases")
    for feature, _gate, _cmd in GATES:
        for version in GATE_VERSIONS:
            for msg in check_gate(feature, version):
                part.violation(f"gate:{feature}:{version}", msg,
                               {"kind": "gate", "feature": feature, "version": version})
            part.count("gate_cases")
            for form in GATE_FORMS.get(feature, ()):
                for msg in check_gate(feature, version, form):
                    part.violation(f"gate:{feature}[{form}]:{version}", msg,
                                   {"kind": "gate", "feature": feature, "version": version,
                                    "form": form})
                part.count("gate_cases")
                part.count("gate_call_forms")
    cnt = part.counters
    if not cnt.get("accepted_supported_board"):
        raise AssertionError("vacuous: no execution accepted a conforming supported board")
    execs = cnt.get("handshake_executions", 0)
    coverage = {
        "states": part.size("states") + cnt.get("order_pairs", 0),
        "transitions": cnt.get("transitions", 0) + cnt.get("order_pairs", 0) +
        cnt.get("gate_cases", 0),
        "traces_validated_against_impl": execs + cnt.get("gate_cases", 0),
        "evaluations": execs + cnt.get("order_pairs", 0) + cnt.get("gate_cases", 0),
        "distinct_nontrivial": cnt.get("faulted_executions", 0) + cnt.get("nontrivial_order", 0),
        "rule": "(a) 729 x 729 version/threshold pairs over components {0,1,2,9,10,11,99,100,123456}, "
                "both layers, plus 42 ordered pairs of boards alive side by side x 6 threshold orders "
                "asked a, b, a (answers are per object); (b) connect() histories (connect+6 requests; connect,connect; "
                "connect,disconnect,connect) x given_name {None, matching, missing} x every "
                f"environment vector with <= {bound} deviations (open failure, 12 banner kinds per "
                "probe, late/silent/error replies, raising reads and writes), and the gate with "
                "MIN_VERSION_STRING raised or lowered (5 minima x 11 boards x subclass / "
                "instance / class attribute); (c) 5 legacy gates "
                "(also as histories: every ordered pair of gated features on one port x 7 board "
                "versions, and a second board re-plugged under the same device name after "
                "closePort(), closePort() with close() raising, or port.close()) "
                "x 12 board versions; non-trivial = handshake executions with a deviation and "
                "version pairs whose string order differs from numeric order",
        "samples": core.rotate(part.samples, ctx.seed, 4),
        "handshake_executions": execs,
        "order_pairs": cnt.get("order_pairs", 0),
        "side_by_side_histories": cnt.get("pair_histories", 0),
        "order_pairs_where_string_order_differs": cnt.get("nontrivial_order", 0),
        "gate_cases": cnt.get("gate_cases", 0),
        "gate_histories": cnt.get("gate_histories", 0),
        "custom_minimum_cases": cnt.get("custom_minimum_cases", 0),
        "accepted_supported_board_executions": cnt.get("accepted_supported_board", 0),
        "distinct_outcomes": part.size("outcomes"),
        "banner_alphabet": [b[0] for b in BANNERS],
        "exhaustive": True,
    }
    assumptions = [
        "connect() catches serial.SerialException only, so I/O faults are injected from the "
        "pyserial exception family",
        "outcomes of connect() when I/O fails *after* a supported board has been verified are "
        "explored but not classified (the statement does not cover them); only "
        "'no True+no error without verification' is applied to them",
        "a banner that names an EBB but carries no version is treated as unverified",
    ]
    coverage["rule"] += ('; every gated feature again with 20 nickname texts (blank, white space only, protocol words, version-like, 16 / 17 / 64 characters) and 18 timeout / state pairs x 12 versions')
    coverage["rule"] += ('; 748 ordered pairs of (version, threshold) questions that read alike when written together or swapped, second one judged')
    return {"part": part, "coverage": coverage, "assumptions": assumptions}


def _dispatch(job):
    if job[0] == "pair":
        return _pair_job(job[1])
    if job[0] == "question":
        return _question_job(job[1])
    return _hs_job(job[1]) if job[0] == "hs" else _order_job(job[1])


def replay(case):
    if case["kind"] == "question_history":
        return check_question_history(tuple(case["first"]), tuple(case["second"]))
    if case["kind"] == "order":
        from plotink import ebb_serial      # pylint: disable=import-outside-toplevel
        ver, thr = case["version"], case["threshold"]
        want = tuple(map(int, ver.split("."))) >= tuple(map(int, thr.split(".")))
        obj = probe_class()()
        obj.parse_version(PREFIX + ver)
        try:
            got = (ebb_serial.min_version(FakePort(LegacyBoard(version=ver)), thr),
                   obj.min_version(thr))
        except Exception as exc:            # pylint: disable=broad-except
            return [f"min_version raised {exc!r}"]
        return [] if got == (want, want) else [f"{ver} >= {thr}: expected {want}, got {got}"]
    if case["kind"] == "pair":
        return [m for _t, m in check_pair(case["a"], case["b"], case["thresholds"])]
    if case["kind"] == "custom_min":
        return check_custom_minimum(case["minimum"], case["version"], case["how"])
    if case["kind"] == "gate_history":
        return check_gate_history(*case["item"])
    if case["kind"] == "gate":
        return check_gate(case["feature"], case["version"], case.get("form"))
    script = [tuple(s) if isinstance(s, list) else s for s in case["script"]]
    (viols, _o, _s, _c), _ch = run_vector(
        lambda ch: run_handshake(ch, script, case["given_name"]),
        [tuple(v) for v in case["vector"]])
    return [m for _k, m in viols]
