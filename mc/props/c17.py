"""C17 - reported peak T3 rate brackets the true peak within one jerk increment.

The T3 machine carries the running peak |rate_i| (i <= k); at every state visited the real
max_rate_t3(k, ...) must satisfy   |rate_1| <= g,  |rate_k| <= g,  g <= peak_k,
peak_k - g <= |jerk|.
"""
import itertools

from .. import core
from ..firmware import RATE_MAX, t3_in_domain, t3_rate_closed, t3_states

PROPERTY = "C17"
P22, P27, P29, P30, P31 = 1 << 22, 1 << 27, 1 << 29, 1 << 30, 1 << 31


def _pm(values):
    out = set()
    for val in values:
        out.add(val)
        out.add(-val)
    return out


def alphabets(ctx):
    # lattice tuned for interior extrema (small jerk against moderate accel, long moves)
    rate = _pm([0, 1, 1000, 123456789, P29, P30 + 1]) | {P31 - 1, -(P31 - 1)}
    accel = _pm([0, 1, 7, 101, 1000, 123457, P22, 50353403])
    jerk = _pm([1, 2, 3, 6, 7, 50, 51, 1000, 1001, 40000])
    ticks = 300
    extra = 2
    if ctx.thorough:
        rate |= _pm([3, 1 << 16, P30])
        accel |= _pm([2, 3, 50, (1 << 16) + 1, P27])
        jerk |= _pm([4, 5, 9, 12, 333, 100001])
        ticks = 2000
        extra = 4
    rate |= set(core.seeded_ints(ctx.seed, "c17.rate", extra, 31))
    accel |= set(core.seeded_ints(ctx.seed, "c17.accel", extra, 24))
    jerk |= set(core.seeded_ints(ctx.seed, "c17.jerk", extra, 16))
    clip = lambda vals: sorted(v for v in vals if abs(v) <= RATE_MAX)     # noqa: E731
    return clip(rate), clip(accel), clip(jerk), ticks


def short_alphabets():
    # the C02 boundary lattice, short moves (extrema at the first ticks / truncation slices)
    rate = _pm([0, 1, 2, P29, P30 + 1, P31 - 1, 123456789])
    accel = _pm([0, 1, 2, 3, 5, 6, 7, P27, P27 + 1, 50353403, P30, P30 + 1])
    jerk = _pm([0, 1, 2, 3, 4, 5, 6, 7, 9, 11, 12, 13, 400000, 1 << 26, (1 << 26) + 1, P29 + 3])
    return sorted(rate), sorted(accel), sorted(jerk), 24


def window_edge_rows():
    """Rows whose turning point lies a hair inside the window in which the helper looks at it
    (1.5 < t < T - 1.5): accel = jerk * (2 - T) +- k and accel = -jerk -+ k for k = 0..3, small
    and very large jerk (the hair is k / |jerk| of a tick), T = 4..20."""
    rows = set()
    for jerk in (7, 1000, 40000, 2000001, 3600000, 5426265):
        for sign in (1, -1):
            j_s = sign * jerk
            for ticks in (4, 5, 8, 12, 20):
                for k in range(4):
                    for accel in (j_s * (2 - ticks) + sign * k, -j_s - sign * k):
                        for rate in (0, 1000000000, -1000000000, 123456789):
                            rows.add((rate, accel, j_s))
    # the same with the largest jerks a move of 4..12 ticks can carry (1e8 .. 6e8: the hair
    # k / |jerk| is then below one part in 1e9 of T), the start rate chosen so that the whole
    # parabola is centred in the 32-bit range
    for jerk in (100000007, 160000000, 1 << 28, 300000000, 430000000, 600000000):
        for sign in (1, -1):
            j_s = sign * jerk
            for ticks in (4, 5, 6, 7, 8, 9, 10, 11, 12):
                for k in range(4):
                    for accel in (j_s * (2 - ticks) + sign * k, -j_s - sign * k):
                        seen = [t3_rate_closed(0, accel, j_s, t) for t in range(1, ticks + 1)]
                        for rate in (-(min(seen) + max(seen)) // 2, -min(seen) - RATE_MAX,
                                     RATE_MAX - max(seen)):
                            if abs(rate) <= RATE_MAX and t3_in_domain(rate, accel, j_s, ticks):
                                rows.add((rate, accel, j_s))
    return sorted(rows)


def _lib():
    from plotink import ebb_calc            # pylint: disable=import-outside-toplevel
    return ebb_calc


def check_state(rate, accel, jerk, ticks, first, last, peak):
    ebb_calc = _lib()
    desc = f"T={ticks} rate={rate} accel={accel} jerk={jerk}"
    try:
        got = ebb_calc.max_rate_t3(ticks, rate, accel, jerk)
    except Exception as exc:                # pylint: disable=broad-except
        return [("raise", f"max_rate_t3({desc}) raised {exc!r}")]
    out = []
    if got > peak:
        out.append(("above_peak", f"max_rate_t3({desc}) = {got} exceeds the true peak {peak}"))
    if got < first:
        out.append(("below_first", f"max_rate_t3({desc}) = {got} < |rate at tick 1| = {first}"))
    if got < last:
        out.append(("below_last", f"max_rate_t3({desc}) = {got} < |rate at tick {ticks}| = {last}"))
    if peak - got > abs(jerk):
        out.append(("short_of_peak", f"max_rate_t3({desc}) = {got} falls short of the true peak "
                    f"{peak} by {peak - got} > |jerk| = {abs(jerk)}"))
    return out


def _rows_chunk(args):
    rows, max_ticks = args
    part = core.Part()
    for rate, accel, jerk in rows:
        peak = -1
        first = None
        visited = 0
        interior = 0
        for k, rate_k, _a, _t in t3_states(rate, accel, jerk, 0, max_ticks):
            visited += 1
            mag = abs(rate_k)
            if first is None:
                first = mag
            peak = max(peak, mag)
            for clause, msg in check_state(rate, accel, jerk, k, first, mag, peak):
                part.violation(f"{clause}:{rate},{accel},{jerk},{k}", msg,
                               {"kind": "peak", "rate": rate, "accel": accel, "jerk": jerk,
                                "ticks": k})
            if peak > first and peak > mag:
                interior += 1
        part.count("states", visited)
        part.count("interior_peak_states", interior)
        part.count("rows")
        if interior:
            part.sample({"rate": rate, "accel": accel, "jerk": jerk, "ticks_stepped": visited,
                         "states_with_strictly_interior_peak": interior, "peak": peak}, limit=2)
    return part


def _limit_chunk(args):
    """Rows that cross the 2^31-1 rate limit (stepped with a wider register): the statement's
    last sentence - a move reported as within the limit exceeds it by at most |jerk| - is about
    exactly these moves.  In-limit states of the same rows get the full bracket check."""
    rows, max_ticks = args
    part = core.Part()
    ebb_calc = _lib()
    for rate, accel, jerk in rows:
        peak, first = -1, None
        for k, rate_k, _a, _t in t3_states(rate, accel, jerk, 0, max_ticks, limit=1 << 34):
            mag = abs(rate_k)
            first = mag if first is None else first
            peak = max(peak, mag)
            part.count("states")
            if peak <= RATE_MAX:
                for clause, msg in check_state(rate, accel, jerk, k, first, mag, peak):
                    part.violation(f"{clause}:{rate},{accel},{jerk},{k}", msg,
                                   {"kind": "peak", "rate": rate, "accel": accel, "jerk": jerk,
                                    "ticks": k})
                continue
            part.count("over_limit_states")
            try:
                got = ebb_calc.max_rate_t3(k, rate, accel, jerk)
            except Exception as exc:        # pylint: disable=broad-except
                got = None
                part.violation(f"raise:{rate},{accel},{jerk},{k}",
                               f"max_rate_t3(T={k} rate={rate} accel={accel} jerk={jerk}) raised "
                               f"{exc!r}", {"kind": "limit", "rate": rate, "accel": accel,
                                            "jerk": jerk, "ticks": k})
            if got is not None and got <= RATE_MAX and peak - RATE_MAX > abs(jerk):
                part.violation(f"limit:{rate},{accel},{jerk},{k}",
                               f"max_rate_t3(T={k} rate={rate} accel={accel} jerk={jerk}) = {got} "
                               f"reports the move as within the 2^31-1 limit, but the recurrence "
                               f"reaches {peak}, over the limit by {peak - RATE_MAX} > |jerk| = "
                               f"{abs(jerk)}", {"kind": "limit", "rate": rate, "accel": accel,
                                                "jerk": jerk, "ticks": k})
    return part


def limit_rows(ctx):
    rates = _pm([P31 - 1, P31 - 5, P31 - 1000000, P30 + 1, 2000000000, 2100000000])
    accels = _pm([0, 1, 7, 1000, 123457, 1000001, 2000000, 3000000, P22])
    jerks = _pm([0, 1, 50, 1000, 20000, 60000, 2000000])
    if ctx.thorough:
        rates |= _pm([P31 - 2, P31 - 123457, 1500000000])
        accels |= _pm([2, 3, 101, 50353403])
        jerks |= _pm([2, 3, 7, 333, 100001])
    return sorted(set(itertools.product(sorted(rates), sorted(accels), sorted(jerks))))


def ratio_rows():
    """Jerk a thousand times (and more) smaller than the acceleration it opposes: the rate looks
    linear for the first thousand ticks and still turns round inside a move that is long enough
    - [(rows, ticks to step)]."""
    out = []
    for rate, accel, jerk in ((5000, -2100000, 1000), (1000000, -2001, 1), (0, 5003, -1),
                              (-7, 50030, -10), (123, -1000, 1), (123, -1001, 1), (0, 30001, -30)):
        ratio = abs(accel) // abs(jerk)
        for sgn in (1, -1):
            out.append(([(sgn * rate, sgn * accel, sgn * jerk)], 2 * ratio + 400))
    return out


def run(ctx):
    rates, accels, jerks, max_ticks = alphabets(ctx)
    rows = sorted(set(itertools.product(rates, accels, jerks)))
    part = core.fan_out(ctx, _rows_chunk, [(c, max_ticks) for c in core.split(rows, 128)])
    s_rates, s_accels, s_jerks, s_ticks = short_alphabets()
    rows2 = set(itertools.product(s_rates, s_accels, s_jerks))
    # rows touching 2^31-1 or -2^31 (valid, no positive counterpart) exactly at a chosen tick
    from .c02 import edge_rows              # pylint: disable=import-outside-toplevel
    rows2 |= {row[:3] for row in edge_rows([0], s_ticks)}
    rows2 |= set(window_edge_rows())
    rows2 = sorted(rows2)
    part.merge(core.fan_out(ctx, _rows_chunk, [(c, s_ticks) for c in core.split(rows2, 64)]))
    part.merge(core.fan_out(ctx, _limit_chunk,
                            [(c, ctx.pick(200, 600)) for c in core.split(limit_rows(ctx), 64)]))
    from .. import calcseq                 # pylint: disable=import-outside-toplevel
    part.merge(calcseq.explore(ctx, ['max_rate_t3']))
    check_long_linear(part)
    part.merge(core.fan_out(ctx, _limit_chunk, ratio_rows()))
    part.merge(core.fan_out(ctx, _harvest_chunk, core.split(harvested_tick_rows(), 32)))
    cnt = part.counters
    coverage = {
        "over_limit_states": cnt.get("over_limit_states", 0),
        "states": cnt.get("states", 0),
        "transitions": cnt.get("states", 0),
        "traces_validated_against_impl": cnt.get("states", 0),
        "evaluations": cnt.get("states", 0),
        "distinct_nontrivial": cnt.get("interior_peak_states", 0),
        "rule": "T3 machine stepped from every (rate, accel, jerk) of two lattices (interior-"
                "extremum lattice up to max_ticks, boundary lattice up to 24 ticks, incl. rows touching 2^31-1 / -2^31 at a chosen tick and rows whose turning point lies k/|jerk| of a tick inside the window edge) inside the "
                "domain; max_rate_t3 called at every state (T = tick index); rows crossing the "
                "2^31-1 limit stepped with a wider register for the 'reported as within the limit' "
                "clause; non-trivial = states "
                "whose true peak lies strictly inside the move (greater than both end rates)",
        "samples": core.rotate(part.samples, ctx.seed, 4),
        "rows": cnt.get("rows", 0),
        "max_ticks": max_ticks,
        "call_histories_siblings_then_twice": cnt.get("calc_histories", 0),
        "exhaustive": True,
    }
    assumptions = ["firmware T3 recurrence as in the property statement; domain |rate_k|, "
                   "|accel_k| <= 2^31-1", "exhaustive over the stated lattice only"]
    coverage["rule"] += ('; rows whose turning point lies k/|jerk| inside the window edge for |jerk| = 1e8..6e8, T = 4..12, start rate centring the move in the 32-bit range')
    coverage["rule"] += ("; move lengths written in ebb_calc's source (and 4096, 100000): c-1..c+2, c+1000, 2c+1 with jerk 1..7 and the turning point inside the move")
    return {"part": part, "coverage": coverage, "assumptions": assumptions}


def harvested_tick_rows():
    """Moves whose length is a number written in ebb_calc's own source (c - 1 .. c + 2, 2c + 1
    for every constant c from 1000 to two million - a move length at which the code changes
    method), with small jerks (1..7) and an acceleration that puts the turning point inside the
    move at every fractional position: [(rate, accel, jerk, [T ...])].  Two fixed lengths (4096,
    100000) keep the family populated when the source names none."""
    ebb_calc = _lib()
    rows = []
    harvested = set(core.harvest_ints(ebb_calc, low=1000, high=2000000))
    for const in sorted(harvested | {4096, 100000}):
        lengths = sorted({const - 1, const, const + 1, const + 2, const + 1000, 2 * const + 1})
        for jerk_mag in ((1, 2, 3, 6, 7) if const in harvested else (1, 3)):
            for where in (0.25, 0.5, 0.75):
                base = int(jerk_mag * const * where)
                for extra in range(0, 2 * jerk_mag + 1):
                    accel_mag = base + extra
                    rise = accel_mag * accel_mag // (2 * jerk_mag)
                    if rise >= (1 << 32) - 10:
                        continue
                    for sign in (1, -1):
                        accel, jerk = sign * accel_mag, -sign * jerk_mag
                        rate = -sign * (rise // 2)          # centre the parabola in range
                        rows.append((rate, accel, jerk, lengths))
    return rows


def _harvest_chunk(rows):
    part = core.Part()
    for rate, accel, jerk, lengths in rows:
        wanted = set(lengths)
        peak, first = -1, None
        for k, rate_k, _a, _t in t3_states(rate, accel, jerk, 0, max(lengths)):
            mag = abs(rate_k)
            first = mag if first is None else first
            peak = max(peak, mag)
            if k in wanted:
                part.count("states")
                part.count("harvested_length_states")
                for clause, msg in check_state(rate, accel, jerk, k, first, mag, peak):
                    part.violation(f"{clause}:{rate},{accel},{jerk},{k}", msg,
                                   {"kind": "peak", "rate": rate, "accel": accel, "jerk": jerk,
                                    "ticks": k})
        part.count("rows")
    return part


def long_linear_rows():
    """Moves of 2^31 ticks and more (T is an unsigned 32-bit count; a day-long move) - there only
    a linear rate (jerk 0, |accel| <= 1) stays in range, and its peak is at one of the two ends."""
    out = []
    for ticks in ((1 << 31) - 1, 1 << 31, (1 << 31) + 1, 3 * (1 << 30) - 1, (1 << 32) - 2, (1 << 32) - 1):
        for rate, accel in ((-(1 << 30), 1), ((1 << 30), -1), (5, 0), (-7, 0), ((1 << 31) - 1, -1),
                            (-(1 << 31) + 1, 1), (0, 1), (0, -1), (12345, 1)):
            first = abs(t3_rate_closed(rate, accel, 0, 1))
            last = abs(t3_rate_closed(rate, accel, 0, ticks))
            if max(first, last) <= RATE_MAX:
                out.append((rate, accel, ticks, first, last))
    return out


def check_long_linear(part):
    for rate, accel, ticks, first, last in long_linear_rows():
        for clause, msg in check_state(rate, accel, 0, ticks, first, last, max(first, last)):
            part.violation(f"{clause}:long:{rate}:{accel}:{ticks}", msg,
                           {"kind": "long_linear", "rate": rate, "accel": accel, "ticks": ticks})
        part.count("long_linear_moves")


def replay(case):
    if case.get("kind") == "long_linear":
        rate, accel, ticks = case["rate"], case["accel"], case["ticks"]
        first = abs(t3_rate_closed(rate, accel, 0, 1))
        last = abs(t3_rate_closed(rate, accel, 0, ticks))
        return [m for _c, m in check_state(rate, accel, 0, ticks, first, last, max(first, last))]
    if str(case.get("kind")).startswith("calc_"):
        from .. import calcseq             # pylint: disable=import-outside-toplevel
        return calcseq.replay(case)
    rate, accel, jerk, ticks = case["rate"], case["accel"], case["jerk"], case["ticks"]
    if case["kind"] == "limit":
        sub = core.Part()
        # re-walk the row up to the recorded tick; keep only what concerns that tick
        for viol in _limit_chunk(([(rate, accel, jerk)], ticks)).violations:
            if viol["case"]["ticks"] == ticks:
                sub.violations.append(viol)
        return [v["msg"] for v in sub.violations]
    peak, first, last = -1, None, None
    for k, rate_k, _a, _t in t3_states(rate, accel, jerk, 0, ticks):
        mag = abs(rate_k)
        first = mag if first is None else first
        peak = max(peak, mag)
        last = (k, mag)
    if last is None or last[0] != ticks:
        return []
    return [m for _c, m in check_state(rate, accel, jerk, ticks, first, last[1], peak)]
