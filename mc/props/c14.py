"""C14 - R-tree intersection query equals brute force.

All multisets of up to n boxes over a small coordinate alphabet (degenerate boxes, points,
duplicates, shared edges and boxes on the split lines are all in there) x all query boxes
of the same alphabet; all subsets of a fixed 12-box arrangement that forces deep recursion.
"""
import itertools

from .. import core

PROPERTY = "C14"


def _lib():
    from plotink import rtree               # pylint: disable=import-outside-toplevel
    return rtree


def boxes_over(coords):
    spans = [(a, b) for a in coords for b in coords if a <= b]
    return [(x[0], y[0], x[1], y[1]) for x in spans for y in spans]


ARRANGEMENT = [
    (0, 0, 8, 8), (1, 1, 7, 7), (2, 2, 6, 6), (3, 3, 5, 5),         # nested
    (0, 0, 4, 4), (4, 4, 8, 8), (4, 0, 8, 4), (0, 4, 4, 8),         # shared edges / corner
    (0, 4, 8, 4), (4, 0, 4, 8),                                     # degenerate cross
    (4, 4, 4, 4), (6, 1, 7, 2),                                     # point at centre, a small box
]
ARR_QUERIES = [(0, 0, 8, 8), (4, 4, 4, 4), (0, 0, 0, 0), (8, 8, 8, 8), (0, 4, 0, 4), (3, 3, 5, 5),
               (5, 5, 9, 9), (-1, -1, 0, 0), (6, 1, 6, 1), (2, 0, 2, 8), (0, 6, 8, 6), (9, 9, 10, 10),
               (4, 0, 4, 0), (1, 5, 3, 7), (7, 7, 7, 7), (4, 2, 4, 2)]


def brute(boxes, query):
    q_1, r_1, q_2, r_2 = query
    return {i for i, (x_1, y_1, x_2, y_2) in boxes
            if not (q_1 > x_2 or r_1 > y_2 or q_2 < x_1 or r_2 < y_1)}


def depth_of(index, limit=80):
    best = 0
    stack = [(index, 0)]
    while stack:
        node, depth = stack.pop()
        best = max(best, depth)
        if depth > limit:
            return depth
        for sub in node.subtrees:
            stack.append((sub, depth + 1))
    return best


# An unrelated index that is built *before* the index under test in every case: two indexes
# living in the same process must not influence each other (identifiers are disjoint).
DECOY = [(1000, (0, 0, 8, 8)), (1001, (1, 1, 1, 1)), (1002, (-5, -5, -4, -4)), (1003, (2, 0, 2, 3)),
         (1004, (0, 2, 3, 2)), (1005, (3, 3, 9, 9))]
DECOY_QUERIES = [(-9, -9, 9, 9), (1, 1, 1, 1), (-5, -5, -5, -5)]


def check_collection(boxes, queries, sequence=None):
    """boxes: list of (id, box).  Returns ([(clause, msg, query)], depth)."""
    rtree = _lib()
    desc = f"Index({boxes!r})"
    core.rejected(rtree.Index, [(0, (0, 0, 1))])                              # a box with three numbers
    try:
        with core.watchdog(10.0):
            decoy = rtree.Index(list(DECOY))
            index = rtree.Index(list(boxes))
    except core.CaseTimeout:
        return [("loop", f"{desc}: construction did not return within 10 s", None, None)], 0
    except RecursionError:
        return [("loop", f"{desc}: construction recursed without bound", None, None)], 0
    except Exception as exc:                # pylint: disable=broad-except
        return [("raise", f"{desc} raised {type(exc).__name__}: {exc}", None, None)], 0
    depth = depth_of(index)
    out = []
    if depth > 64:
        out.append(("depth", f"{desc}: tree deeper than 64 levels", None, None))
    # one index answers many queries: the whole list, then the list again backwards, so every
    # query is also asked after every other one (a result set handed out by reference, a
    # memo keyed too coarsely).  A failing case records the queries asked before it.
    asked = []
    kept = [0, 0, 0, 0]                 # the caller's own query list, edited in place between calls
    for query in (list(queries) + list(queries)[::-1] if sequence is None else sequence):
        asked.append(query)
        again = f" [query #{len(asked)} asked of this index object]"
        try:
            if (len(asked) - 1) // 4 % 2 == 1:  # queries 5-8, 13-16, ... through the kept object
                kept[:] = query
                got = index.intersection(kept)
                again += " [through one list object edited in place]"
            else:
                got = index.intersection(query)
        except Exception as exc:            # pylint: disable=broad-except
            out.append(("raise", f"{desc}.intersection({query}) raised {exc!r}{again}", query,
                        list(asked)))
            continue
        want = brute(boxes, query)
        if got != want or not isinstance(got, set):
            missed, extra = sorted(want - set(got)), sorted(set(got) - want)
            out.append(("result", f"{desc}.intersection({query}) = {sorted(got)}; brute force "
                        f"gives {sorted(want)} (missed {missed}, extra {extra}){again}", query,
                        list(asked)))
            if len(out) > 3:
                break
    for query in DECOY_QUERIES:
        try:
            got = decoy.intersection(query)
        except Exception as exc:            # pylint: disable=broad-except
            out.append(("isolation", f"after building {desc}, an index built earlier raised "
                        f"{exc!r} for query {query}", None, None))
            break
        if got != brute(DECOY, query):
            out.append(("isolation", f"after building {desc}, the earlier Index({DECOY!r})"
                        f".intersection({query}) = {sorted(got)}; brute force gives "
                        f"{sorted(brute(DECOY, query))}", None, None))
            break
    return out, depth


def _multiset_chunk(args):
    coords, firsts, size, queries = args
    part = core.Part()
    all_boxes = boxes_over(coords)
    for first in firsts:
        for rest in itertools.combinations_with_replacement(range(first, len(all_boxes)), size - 1):
            combo = (first,) + rest
            boxes = [(k, all_boxes[b]) for k, b in enumerate(combo)]
            bad, depth = check_collection(boxes, queries)
            part.count("collections")
            part.count("queries", 2 * len(queries))
            if depth:
                part.count("nontrivial")            # the collection actually produced subtrees
            part.counters["max_depth"] = max(part.counters.get("max_depth", 0), depth)
            for clause, msg, query, asked in bad:
                part.violation(f"{clause}:{boxes}:{query}", msg,
                               {"kind": "boxes", "boxes": [[i, list(b)] for i, b in boxes],
                                "query": list(query) if query else None,
                            "asked": [list(q) for q in asked] if asked else None})
    return part


def multiscale_collections(ctx):
    """Collections with detail on many scales (boxes shrinking geometrically towards a focus):
    the tree gets 10-25 levels deep, which no collection over a 3- or 4-value coordinate
    alphabet can reach.  Queries: every box itself, its centre, the focus, the whole extent."""
    import math                             # pylint: disable=import-outside-toplevel
    out = []
    for count in (24, 48, 64, 96) + ((128,) if ctx.thorough else ()):
        out.append([(i, (2.0 ** -i, 2.0 ** -i, 1.1 * 2.0 ** -i, 1.1 * 2.0 ** -i))
                    for i in range(count)])
        out.append([(i, (-(1.5 ** -i), 3 * 1.5 ** -i, -(1.5 ** -i) + 0.2 * 1.5 ** -i, 3.3 * 1.5 ** -i))
                    for i in range(count)])
    for count in (20, 40):
        out.append([(i, (2.0 ** -i, 0.0, 1.1 * 2.0 ** -i, 0.0)) for i in range(count)])   # strokes
    for count, seed in ((40, 1), (60, 2), (60, 3)):
        boxes = []
        for i in range(count):
            rad = 2.0 ** -(i * 0.8)
            ang = 2.399963 * i * seed       # golden-angle spiral, deterministic
            x_0, y_0 = rad * math.cos(ang), rad * math.sin(ang)
            boxes.append((i, (x_0, y_0, x_0 + rad / 4, y_0 + rad / 4)))
        out.append(boxes)
    return out


def shared_id_collections():
    """Several boxes filed under one identifier (a path in several pieces, one id per layer):
    the answer is the set of identifiers of intersecting boxes - an identifier is in it when
    *any* of its boxes is hit.  Identifiers Python holds equal (1, 1.0, True) are one."""
    out = []
    out.append([("A", (0, 0, 10, 0)), ("A", (10, 10, 20, 10)), ("B", (5, 5, 6, 6))])
    out.append([(k % 3, (k, k % 4, k + 1, k % 4 + 1)) for k in range(12)])
    out.append([(1, (0, 0, 1, 1)), (1.0, (5, 5, 6, 6)), (True, (9, 0, 10, 1)), (2, (5, 0, 6, 1))])
    out.append([("p", (k, 0, k, 10)) for k in range(0, 40, 2)] + [("q", (0, k, 40, k)) for k in range(1, 9, 3)])
    # entries that differ and *hash* alike (-1 and -2 are the two small integers with one hash):
    # as identifiers, as coordinates, under one identifier
    out.append([(7, (-2, 0, -2, 5)), (7, (-1, 0, -1, 5))])
    out.append([(-1, (-1, 0, -1, 5)), (-2, (-2, 0, -2, 5))])
    out.append([(-1, (-2, -2, -1, -1)), (-2, (-1, -1, -2 + 2, -2 + 2)), (3, (-2, -1, -1, -1))])
    for lo, hi in ((-2, -1), (-1, -2)):
        out.append([(k, (lo * (k % 2) + hi * (1 - k % 2), k - 3, lo * (k % 2) + hi * (1 - k % 2), k))
                    for k in range(6)])
    return out


def centre_edge_collections():
    """A few dozen boxes on coordinates without a short binary expansion (sevenths, tenths), plus
    one stroke (a box of zero width, or of zero height) whose position coincides - to the last
    bit, and 1..8 units in the last place either side - with the mean of all box midpoints: the
    point about which an index node divides its boxes, however that mean is summed.  Queries
    touch the stroke from either side and along it.  [(boxes, queries)]"""
    import math                             # pylint: disable=import-outside-toplevel

    def running_mean(values):
        mean = 0
        for val in values:
            mean += val / len(values)
        return mean

    out = []
    for count in (12, 40, 150):
        boxes = [(k, ((k * 37) % 101 / 7 + k / 10, (k * 53) % 89 / 7,
                      (k * 37) % 101 / 7 + k / 10 + (k % 9 + 1) / 3, (k * 53) % 89 / 7 + (k % 7 + 1) / 3))
                 for k in range(count)]
        for axis in (0, 1):
            mids = [b[axis] / 2 + b[axis + 2] / 2 for _i, b in boxes]
            guess = sum(mids) / len(mids)
            for _round in range(4):
                guess = running_mean(mids + [guess])
            spots, low, high = [guess], guess, guess
            for _step in range(8):
                low, high = math.nextafter(low, -math.inf), math.nextafter(high, math.inf)
                spots += [low, high]
            for spot in spots:
                if axis == 0:
                    stroke = (spot, 4.0, spot, 6.0)
                    queries = [(spot, 0.0, spot, 20.0), (spot, 4.5, spot + 1.0, 5.0),
                               (spot - 1.0, 4.5, spot, 5.0), (spot, 5.0, spot, 5.0)]
                else:
                    stroke = (4.0, spot, 6.0, spot)
                    queries = [(0.0, spot, 40.0, spot), (4.5, spot, 5.0, spot + 1.0),
                               (4.5, spot - 1.0, 5.0, spot), (5.0, spot, 5.0, spot)]
                for place in (len(boxes), 0, len(boxes) // 2):
                    coll = boxes[:place] + [(9999, stroke)] + boxes[place:]
                    out.append((coll, queries + [(-1.0, -1.0, 99.0, 99.0)]))
    return out


def _centre_chunk(items):
    part = core.Part()
    for boxes, queries in items:
        bad, depth = check_collection(boxes, queries)
        part.count("collections")
        part.count("centre_edge_collections")
        part.count("queries", 2 * len(queries))
        part.count("nontrivial")
        part.counters["max_depth"] = max(part.counters.get("max_depth", 0), depth)
        for clause, msg, query, asked in bad:
            part.violation(f"{clause}:centre:{len(boxes)}:{core.digest(boxes)}:{query}",
                           msg.replace(repr(boxes), f"<{len(boxes)} boxes, one stroke "
                                                    f"{[b for i, b in boxes if i == 9999][0]} on the "
                                                    f"mean of the midpoints>")[:700],
                           {"kind": "boxes", "boxes": [[i, list(b)] for i, b in boxes],
                            "query": list(query) if query else None,
                            "asked": [list(q) for q in asked] if asked else None})
    return part


def crowded_collections():
    """257 and more boxes that all fall into one quadrant (nested, duplicated, sharing a corner,
    strokes through one point): nothing separates them, the node must become a leaf - at any
    size (small-integer caching, a byte-sized counter and recursion limits end at 256)."""
    out = []
    out.append([(k, (-k, -k, k, k)) for k in range(1, 301)])                  # nested
    out.append([(k, (2, 3, 5, 7)) for k in range(257)])                       # duplicates
    out.append([(k, (0, 0, k, k)) for k in range(1, 401)])                    # common corner
    strokes = [(k, (-k, 0, k, 0)) for k in range(1, 151)]
    strokes += [(1000 + k, (0, -k, 0, k)) for k in range(1, 151)]             # through (0, 0)
    out.append(strokes)
    out.append([(k, (k % 7 - 40, k % 5 - 40, k % 7 - 39, k % 5 - 39)) for k in range(64)] +
               [(100 + k, (-k / 4, -k / 4, k / 4, k / 4)) for k in range(1, 281)])
    return out


def huge_collections(thorough):
    """Thousands of boxes, lopsided enough that a *child* node holds well over a thousand: work
    done on a sample of a large node (every n-th box), tables sized for "reasonable" nodes."""
    out = []
    for n_cluster, n_rest in ((1300, 1100),) + (((2700, 900),) if thorough else ()):
        cluster = [(k, (500 + (k * 37) % 101 + (k % 3) / 4, 500 + (k * 53) % 103 + (k % 5) / 8,
                        500 + (k * 37) % 101 + 1 + (k % 7) / 2, 500 + (k * 53) % 103 + 1 + (k % 4)))
                   for k in range(n_cluster)]
        rest = [(10000 + k, ((k * 29) % 400, (k * 71) % 397, (k * 29) % 400 + 2, (k * 71) % 397 + 3))
                for k in range(n_rest)]
        out.append(("cluster", cluster + rest, n_cluster))
    # a second layout: short strokes (zero-height / zero-width boxes) crowded into the south-west
    strokes = [(k, ((k * 41) % 97 / 2, (k * 59) % 89 / 2, (k * 41) % 97 / 2 + (k % 2) * (1 + k % 3),
                    (k * 59) % 89 / 2 + (1 - k % 2) * (1 + k % 4))) for k in range(1400)]
    far = [(9000 + k, (200 + (k * 31) % 300, 200 + (k * 67) % 290, 203 + (k * 31) % 300,
                       201 + (k * 67) % 290)) for k in range(1000)]
    out.append(("strokes", strokes + far, 1400))
    # a third layout: a crowd of frames that all span the middle of the page, and one, two or
    # three small marks in different corners - at every node one quadrant holds all boxes but a
    # few.  Crowd sizes around the round numbers and around 1/r and 1/(1-r) for every share r
    # written in the index's source (a rule about "nearly all" of a node's boxes).
    sizes = {5, 30, 99, 100, 101, 150, 198, 199, 200, 201, 250, 400, 1000} | \
        ({2500} if thorough else set())
    for ratio in core.harvest_ratios(_lib()):
        for count in (1 / ratio, 1 / (1 - ratio)):
            if count < 20000:
                sizes |= {int(count) + d for d in (-2, -1, 0, 1, 2, 50)} | {2 * int(count) + 1}
    corners = [(1, 97, 3, 99), (97, 1, 99, 3), (1, 1, 2, 2), (96, 96, 99, 98)]
    for n_crowd in sorted(n for n in sizes if n >= 2):
        crowd = [(100 + k, (40 - k % 7, 40 - k % 5, 60 + k % 3, 60 + k % 11)) for k in range(n_crowd)]
        for n_marks in (1, 2, 3, 4):
            marks = [(900000 + m, corners[m]) for m in range(n_marks)]
            out.append((f"crowd of {n_crowd} after {n_marks} marks", marks + crowd, n_marks + 2))
            if n_crowd <= 450:
                out.append((f"crowd of {n_crowd} around {n_marks} marks",
                            crowd[: n_crowd // 2] + marks + crowd[n_crowd // 2:],
                            n_crowd // 2 + n_marks))
    return out


def _huge_chunk(items):
    part = core.Part()
    for name, boxes, n_probe in items:
        queries = []
        for _i, (x_a, y_a, x_b, y_b) in boxes[:n_probe]:
            queries += [(x_a, y_a, x_a, y_a), (x_b, y_b, x_b, y_b), (x_a, y_b, x_a, y_b),
                        (x_b, y_a, x_b, y_a)]
        bad, depth = check_collection(boxes, queries)
        part.count("collections")
        part.count("huge_collections")
        part.count("queries", 2 * len(queries))
        part.count("nontrivial")
        part.counters["max_depth"] = max(part.counters.get("max_depth", 0), depth)
        for clause, msg, query, asked in bad[:5]:
            part.violation(f"{clause}:huge:{name}:{len(boxes)}:{query}",
                           msg.replace(repr(boxes), f"<{len(boxes)} boxes ({name}), first "
                                                    f"{boxes[0]}, last {boxes[-1]}>")[:700],
                           {"kind": "huge", "name": name, "size": len(boxes),
                            "query": list(query) if query else None,
                            "asked": [list(q) for q in asked[-8:]] if asked else None})
    return part


def _multiscale_chunk(collections):
    part = core.Part()
    for boxes in collections:
        queries = [box for _i, box in boxes]
        queries += [((b[0] + b[2]) / 2, (b[1] + b[3]) / 2, (b[0] + b[2]) / 2, (b[1] + b[3]) / 2)
                    for _i, b in boxes]
        queries += [(0.0, 0.0, 0.0, 0.0), (-5.0, -5.0, 5.0, 5.0), (0.0, 0.0, 1e-9, 1e-9),
                    (-1e-6, -1e-6, 1e-6, 1e-6)]
        bad, depth = check_collection(boxes, queries)
        part.count("collections")
        part.count("multiscale_collections")
        part.count("queries", 2 * len(queries))
        part.count("nontrivial")
        part.counters["max_depth"] = max(part.counters.get("max_depth", 0), depth)
        for clause, msg, query, asked in bad:
            part.violation(f"{clause}:multiscale:{len(boxes)}:{core.digest(boxes)}:{query}",
                           msg.replace(repr(boxes), f"<{len(boxes)} boxes on geometric scales, "
                                                    f"first {boxes[0]}, last {boxes[-1]}>")[:700],
                           {"kind": "boxes", "boxes": [[i, list(b)] for i, b in boxes],
                            "query": list(query) if query else None,
                            "asked": [list(q) for q in asked] if asked else None})
    return part


def _subset_chunk(masks):
    part = core.Part()
    for mask in masks:
        boxes = [(k, box) for k, box in enumerate(ARRANGEMENT) if mask >> k & 1]
        bad, depth = check_collection(boxes, ARR_QUERIES)
        part.count("collections")
        part.count("queries", 2 * len(ARR_QUERIES))
        if depth:
            part.count("nontrivial")
        part.counters["max_depth"] = max(part.counters.get("max_depth", 0), depth)
        for clause, msg, query, asked in bad:
            part.violation(f"{clause}:{boxes}:{query}", msg,
                           {"kind": "boxes", "boxes": [[i, list(b)] for i, b in boxes],
                            "query": list(query) if query else None,
                            "asked": [list(q) for q in asked] if asked else None})
    if masks:
        mask = masks[len(masks) // 2]
        part.sample({"boxes": [list(b) for k, b in enumerate(ARRANGEMENT) if mask >> k & 1],
                     "queries": [list(q) for q in ARR_QUERIES[:3]]}, limit=1)
    return part


def _dispatch(job):
    return {"multi": _multiset_chunk, "subset": _subset_chunk,
            "multiscale": _multiscale_chunk, "huge": _huge_chunk,
            "centre": _centre_chunk}[job[0]](job[1])


def run(ctx):
    jobs = []
    small = [0, 1, 2]
    q_small = boxes_over(small)
    n_small = len(q_small)
    max_n = ctx.pick(4, 5)
    for size in range(1, max_n + 1):
        for chunk in core.split(range(n_small), 36 if size >= 3 else 4):
            jobs.append(("multi", (small, chunk, size, q_small)))
    mid = [0, 1, 2, 3]
    q_mid = boxes_over(mid)
    for size in range(1, ctx.pick(2, 3) + 1):
        for chunk in core.split(range(len(q_mid)), 50):
            jobs.append(("multi", (mid, chunk, size, q_mid)))
    # seed-derived alphabet (three distinct coordinates incl. a negative and a fraction)
    rnd = core.seeded_ints(ctx.seed, "c14.coord", 3, 5, signed=False)
    odd = sorted({-(rnd[0] % 4) - 0.5, (rnd[1] % 3) + 0.25, (rnd[2] % 5) + 3})
    q_odd = boxes_over(odd)
    for size in range(1, 4):
        for chunk in core.split(range(len(q_odd)), 12):
            jobs.append(("multi", (odd, chunk, size, q_odd)))
    # coordinates that do not add or subtract exactly in binary: tenths, and whole numbers
    # beyond 2^53 (touching boxes there are where a rearranged overlap test rounds the wrong
    # way; the comparisons of the statement themselves are always exact)
    tenths = [0.0, 0.1, 0.2, 0.3]
    q_tenths = boxes_over(tenths)
    huge = [float(1 << 53), float((1 << 53) + 2), float((1 << 53) + 6), float((1 << 53) + 8)]
    q_huge = boxes_over(huge)
    extreme = [-1.6e308, -1.1e308, 1.1e308, 1.6e308]      # xmin + xmax overflows, xmin/2 + xmax/2 does not
    q_extreme = boxes_over(extreme)
    # ... and whole numbers given as Python ints that no double can hold (compared exactly by
    # the language; an implementation that passes them through float arithmetic moves them)
    bigints = [10 ** 17, 10 ** 17 + 1, 10 ** 17 + 3, 10 ** 17 + 4]
    q_bigints = boxes_over(bigints)
    for alphabet, q_alpha in ((tenths, q_tenths), (huge, q_huge), (extreme, q_extreme),
                              (bigints, q_bigints)):
        for size in (1, 2):
            for chunk in core.split(range(len(q_alpha)), 25):
                jobs.append(("multi", (alphabet, chunk, size, q_alpha)))
    sevenths = [0.7, 0.9, 1.0]
    q_sev = boxes_over(sevenths)
    for size in (1, 2, 3):
        for chunk in core.split(range(len(q_sev)), 12):
            jobs.append(("multi", (sevenths, chunk, size, q_sev)))
    for chunk in core.split(range(1 << len(ARRANGEMENT)), 32):
        jobs.append(("subset", chunk))
    for chunk in core.split(multiscale_collections(ctx), 16):
        jobs.append(("multiscale", chunk))
    for crowd in crowded_collections() + shared_id_collections():
        jobs.append(("multiscale", [crowd]))
    for huge in huge_collections(ctx.thorough):
        jobs.insert(0, ("huge", [huge]))        # the long ones first
    for chunk in core.split(centre_edge_collections(), 16):
        jobs.append(("centre", chunk))
    part = core.fan_out(ctx, _dispatch, jobs)
    # the empty collection
    bad, _depth = check_collection([], q_small)
    part.count("collections")
    for clause, msg, query, asked in bad:
        part.violation(f"{clause}:empty:{query}", msg, {"kind": "boxes", "boxes": [],
                                                        "query": list(query) if query else None,
                            "asked": [list(q) for q in asked] if asked else None})
    from .. import callforms              # pylint: disable=import-outside-toplevel
    part.merge(callforms.explore("C14"))
    cnt = part.counters
    coverage = {
        "states": cnt.get("collections", 0),
        "transitions": cnt.get("queries", 0),
        "traces_validated_against_impl": cnt.get("queries", 0),
        "evaluations": cnt.get("queries", 0),
        "distinct_nontrivial": cnt.get("nontrivial", 0),
        "rule": f"all multisets of 1..{max_n} boxes over coordinates {{0,1,2}} (36 boxes, 9+9 "
                "degenerate) x all 36 query boxes; multisets of 1..2(3) boxes over {0,1,2,3} x 100 "
                "queries; a seed-derived 3-coordinate alphabet; multisets of 1..2 boxes over tenths {0,.1,.2,.3} "
                "and over {2^53, +2, +6, +8} and {+-1.1e308, +-1.6e308} x 100 queries, 1..3 boxes over {.7,.9,1}; all 4096 subsets of a 12-box "
                "arrangement x 16 queries; collections of 20..96 (128) boxes on geometric scales "
                "(tree depth up to max_tree_depth) and two (thorough three) collections of 2400..3600 boxes in which a child node holds over 1300, probed at all four corners of each of those boxes; five crowded collections of 257..400 boxes that "
                "fall into one quadrant, queried with every box, its centre and the "
                "focus; the empty collection; non-trivial = collections whose "
                "index actually has subtrees; distinct identifiers even for equal boxes",
        "samples": core.rotate(part.samples, ctx.seed, 4),
        "collections": cnt.get("collections", 0),
        "multiscale_collections": cnt.get("multiscale_collections", 0),
        "max_tree_depth": cnt.get("max_depth", 0),
        "exhaustive": True,
    }
    assumptions = ["touching counts as intersecting (closed boxes)",
                   "construction must finish within a recursion depth of 64 / 10 s per collection"]
    coverage["rule"] += ("; crowds of n frames spanning the centre plus 1..4 corner marks (n around round numbers up to 1000 (2500) and around 1/r, 1/(1-r) for every share r in the index's source), marks first and in the middle of the list")
    coverage["rule"] += ('; 306 collections on non-dyadic coordinates with a stroke 0..8 ulp from the running mean of the box midpoints')
    return {"part": part, "coverage": coverage, "assumptions": assumptions}


def replay(case):
    if case.get("kind") == "callform":
        from .. import callforms          # pylint: disable=import-outside-toplevel
        return callforms.replay(case)
    if case.get("kind") == "huge":
        boxes = [b for name, b, _n in huge_collections(True)
                 if name == case["name"] and len(b) == case["size"]][0]
        sequence = [tuple(q) for q in case["asked"]] if case.get("asked") else None
        queries = [tuple(case["query"])] if case["query"] else []
        bad, _d = check_collection(boxes, queries, sequence)
        return [m.replace(repr(boxes), f"<{len(boxes)} boxes ({case['name']})>")[:700]
                for _c, m, _q, _a in bad]
    boxes = [(i, tuple(b)) for i, b in case["boxes"]]
    queries = [tuple(case["query"])] if case["query"] else []
    sequence = [tuple(q) for q in case["asked"]] if case.get("asked") else None
    bad, _d = check_collection(boxes, queries, sequence)
    return [m for _c, m, _q, _a in bad]
