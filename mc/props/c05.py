"""C05 - EBB3 command/query framing and fault handling.

(a) primitives: command()/query() x request strings x every reply stream with <= bound
    deviations (latency 0/1/24/25/26, bare / comma-less / wrong-name / error replies,
    silence, exceptions at write or read), against an independent reference model of the
    statement;
(b) every public request method (introspected) x every environment vector with <= bound
    deviations: no exception escapes, a failing deviation is recorded and reported by the
    failure value, a non-failing one (reply late by <= 25 empty reads) changes nothing;
(c) alignment: all ordered pairs of request methods with per-reply latencies 0/1/25:
    every reply is consumed by the request that caused it, nothing is left queued.
"""
import itertools

from .. import core
from ..ebb3drv import (call, decoy_problem, is_failure_value, make_decoy, new_object,
                       operations)
from ..explore import Stats, explore, run_vector
from ..fakeserial import PYSERIAL_READ_FAULTS, PYSERIAL_WRITE_FAULTS, EBB3Board, Profile

PROPERTY = "C05"
MAXLAT = 25

# the four kinds pyserial raises, and RuntimeError, which the library's own except clauses name
EXCS = ("SerialException", "PortNotOpenError", "SerialTimeoutException", "OSError",
        "RuntimeError", "OSError_EAGAIN",
        "InterruptedError", "BrokenPipeError")
# ... and each fault pyserial's own read()/write() can raise, with the class and text pyserial uses
PRIM_PROFILE = Profile(write_exc=EXCS + PYSERIAL_WRITE_FAULTS, read_exc=EXCS + PYSERIAL_READ_FAULTS, latency=(0, 1, 24, 25, 26),
                       content=("bare", "nocomma", "echo", "commapay", "spacepay", "tabpay", "bangpay",
                                "okpay", "errpay", "banner", "wrong",
                                "shifted", "err", "nameerr", "sibling", "cut", "longerr", "jsonish",
                                "lonebrace"),
                       silent=True,
                       read_window=4, late={25, 26},
                       # the reads to wait through may be bare line ends instead of nothing
                       blank=("\r\n", "\n", " \r\n"))
METH_PROFILE = Profile(write_exc=("SerialException", "OSError"),
                       read_exc=("SerialException", "PortNotOpenError", "OSError"),
                       latency=(0, 1, 25, 26),
                       content=("wrong", "shifted", "err", "nameerr", "sibling", "cut", "longerr",
                                "jsonish", "lonebrace", "banner"),
                       silent=True, read_window=2)
# reboot()/bootload() write to the port themselves and contain the pyserial exception family
# only; pyserial wraps OS-level failures of write() into SerialException, so a bare OSError is
# not among the faults a serial port can produce there (see DESIGN.md C05 (ii)).
DIRECT_PROFILE = Profile(write_exc=("SerialException", "PortNotOpenError",
                                    "SerialTimeoutException"), close_exc=True)
DIRECT_METHODS = ("reboot", "bootload")
ALIGN_PROFILE = Profile(latency=(0, 1, 25))

REQUESTS = ["V", "v", "R", "QG", "QM", "S2,0,4", "C,1,2", "SM,10,1,1", "  SM,10,1,1  ",
            "QL,3\r", "\tEM,1,1", "QT", "RB", "BL", "ST,Pen  Plotter", " ST,a\tb ",
            # free text that means something to str.format / % (a name is any text)
            "ST,{draft}", "ST,{0}%s", "ST,}{",
            # long low-level moves: trimmed lengths 63, 64, 65 and 128 (a USB packet is 64 bytes)
            "LM," + ",".join(["1234567890"] * 5) + ",12345",
            "  LM," + ",".join(["1234567890"] * 5) + ",123456 ",
            "LM," + ",".join(["1234567890"] * 5) + ",1234567",
            "L3," + ",".join(["-123456789"] * 11) + ",1234"]
assert [len(r.strip()) for r in REQUESTS[-4:]] == [63, 64, 65, 128]
EXEMPT = ("rb", "r", "bl")              # I/O exceptions deliberately ignored (board leaves the bus)
FAILING_CONTENT = ("wrong", "shifted", "err", "nameerr", "sibling", "cut", "longerr", "jsonish",
                   "lonebrace", "banner")


def ref_name(request):
    """Request name per the statement: the one or two letters before the arguments."""
    return request.strip().split(",")[0]


def ref_payload(reply, name):
    rest = reply[len(name):]
    return rest[1:] if rest.startswith(",") else rest


# ----------------------------------------------------------------------------- (a) primitives

def run_primitive(chooser, kind, request):
    obj, port, board = new_object(chooser, PRIM_PROFILE, board=EBB3Board(future=True,
                                                                         nickname="Axi"))
    port.tag = "p:"
    ret, exc = call(obj, kind, (request,))
    viols = []
    stripped = request.strip()
    name = ref_name(request)
    fsum = ",".join(f"{k}={v}" for (_t, k, v) in port.faults) or "none"
    where = f"{kind}({request!r}) env[{fsum}]"
    ckey = f"{kind}:{stripped}:{fsum}"
    kinds = {k for (_t, k, _v) in port.faults}
    raised_env = bool(kinds & {"write_exc", "read_exc"})

    if exc is not None:
        viols.append((f"raise:{ckey}", f"{where}: raised {type(exc).__name__}: {exc}"))
    want = (stripped + "\r").encode("ascii")
    sent = b"".join(port.write_attempts)
    if sent != want and not ("write_exc" in kinds and port.write_attempts and
                             want.startswith(sent) and port.write_attempts[-1]):
        # (when a write raised, what had been handed over up to there is a prefix of the request)
        # the bytes on the wire decide (a request may be handed over in several pieces)
        viols.append((f"framing:{ckey}", f"{where}: handed {port.write_attempts!r} to the port, "
                      f"expected the bytes {want!r}, once"))
    if port.reads > 26:
        viols.append((f"reads:{ckey}", f"{where}: {port.reads} reads, more than 1 + 25 retries"))
    # reference verdict from the environment script (not from what the library chose to read)
    reply = None
    if not raised_env and port.produced:
        first = port.produced[0]
        if first.orig_delay <= MAXLAT:
            reply = first.text
    if raised_env:
        if exc is None and name.lower() not in EXEMPT:
            if obj.err is None:
                viols.append((f"unrecorded:{ckey}", f"{where}: I/O exception but no error recorded"))
            if not is_failure_value(ret):
                viols.append((f"value:{ckey}", f"{where}: I/O exception but returned {ret!r}"))
    else:
        success = reply is not None and reply.startswith(name) and "Err:" not in reply
        if exc is None and success:
            expect = True if kind == "command" else ref_payload(reply, name)
            if ret != expect or type(ret) is not type(expect) or obj.err is not None:
                viols.append((f"success:{ckey}", f"{where}: reply {reply!r} is a correct reply but "
                              f"the call returned {ret!r} with err={obj.err!r}; expected {expect!r}"))
        if exc is None and not success:
            fail = False if kind == "command" else None
            if ret is not fail:
                viols.append((f"value:{ckey}", f"{where}: reply {reply!r} (None = nothing within "
                              f"26 reads) is not a correct reply but the call returned {ret!r}"))
            if obj.err is None:
                viols.append((f"unrecorded:{ckey}", f"{where}: failed exchange but no error recorded"))
    obs = (kind, stripped, repr(ret), obj.err, type(exc).__name__ if exc else None, port.reads)
    return viols, obs, board.snapshot()


def _prim_job(args):
    kind, request, bound = args
    part = core.Part()
    stats = Stats()

    def run(chooser):
        viols, obs, snap = run_primitive(chooser, kind, request)
        for key, msg in viols:
            part.violation(key, msg, {"kind": "prim", "call": kind, "request": request,
                                      "vector": chooser.vector()})
        part.add("states", core.digest((obs[2:4], snap)))
        if chooser.deviations():
            part.count("faulted_executions")
        return core.digest(obs)

    explore(run, bound, stats)
    part.count("executions", stats.executions)
    part.count("transitions", stats.executions)
    part.count("prim_executions", stats.executions)
    part.sets.setdefault("outcomes", set()).update(stats.outcomes)
    return part


# ----------------------------------------------------------------------------- (b) methods

def _failing(faults, method):
    for _tag, kind, value in faults:
        if kind in ("write_exc", "read_exc", "silent"):
            return True
        if kind == "close_exc":
            continue                    # closing is best effort; the request itself succeeded
        if kind == "content" and value in FAILING_CONTENT:
            return True
        if kind == "latency" and (value > MAXLAT or (method == "query_statusbyte" and value > 0)):
            return True
    return False


def run_method(chooser, op, profile=None, pre_ops=()):
    _label, method, args = op
    if profile is None:
        profile = DIRECT_PROFILE if method in DIRECT_METHODS else METH_PROFILE
    decoy = make_decoy()
    obj, port, board = new_object(chooser, profile)
    port.tag = "pre:"
    for _l, pre_m, pre_a in pre_ops:
        call(obj, pre_m, pre_a)
    port.tag = "m:"
    faults_0 = len(port.faults)
    ret, exc = call(obj, method, args)
    faults = port.faults[faults_0:]
    fsum = ",".join(f"{k}={v}" for (_t, k, v) in faults) or "none"
    where = f"{method}{args!r} env[{fsum}]"
    ckey = f"{method}:{fsum}"
    viols = []
    if exc is not None:
        viols.append((f"raise:{ckey}", f"{where}: raised {type(exc).__name__}: {exc}"))
    failing = _failing(faults, method)
    # command()/query() deliberately ignore I/O exceptions for R / RB / BL (the board leaves the
    # bus); for exactly these only "no exception escapes" is asserted - interpretation (ii)
    # The exemption is as narrow as what the library does on purpose: command() alone skips the
    # recording; query() goes on to its reply check, finds nothing, and records a timeout - so a
    # raised exception in query('R' / 'RB' / 'BL') is held to the property as stated.
    exempt = method == "command" and ref_name(args[0]).lower() in EXEMPT and \
        any(kind in ("write_exc", "read_exc") for _t, kind, _v in faults)
    if failing and exc is None and not exempt:
        if not is_failure_value(ret):
            viols.append((f"value:{ckey}", f"{where}: the exchange failed but the method returned "
                          f"{ret!r}, not its failure value"))
        if obj.err is None and method not in ("reboot", "bootload"):
            viols.append((f"unrecorded:{ckey}", f"{where}: the exchange failed but no error was "
                          f"recorded (err is None)"))
    leak = decoy_problem(decoy)
    if leak:
        viols.append((f"isolation:{method}", f"{where}: {leak}"))
    obs = (repr(ret), obj.err, type(exc).__name__ if exc else None, obj.name,
           tuple(w.decode() for w in port.write_attempts))
    return viols, obs, board.snapshot(), failing, port


def _method_job(args):
    op, bound = args[0], args[1]
    pre_ops = tuple(args[2]) if len(args) > 2 else ()      # healthy operations executed first
    part = core.Part()
    stats = Stats()
    baseline = {}

    def run(chooser):
        viols, obs, snap, failing, port = run_method(chooser, op, pre_ops=pre_ops)
        if not chooser.deviations():
            baseline["obs"] = (obs, snap)
            if obs[1] is not None or obs[2] is not None:
                viols.append((f"default:{op[1]}", f"{op[0]} against a conforming prompt board: "
                              f"err={obs[1]!r} exception={obs[2]!r}"))
            if port.queue or port.misattributed():
                viols.append((f"default_align:{op[1]}", f"{op[0]}: left {len(port.queue)} lines "
                              f"queued / misattributed {port.misattributed()}"))
        elif not failing:
            part.count("nonfailing_deviation_executions")
            if (obs, snap) != baseline["obs"]:
                viols.append((f"differential:{op[1]}:{port.faults}",
                              f"{op[0]} with only tolerated latencies {port.faults} gave "
                              f"{(obs, snap)!r}, the prompt run gave {baseline['obs']!r}"))
            if port.queue or port.misattributed():
                viols.append((f"align:{op[1]}:{port.faults}", f"{op[0]} with tolerated latencies: "
                              f"queue {[(l.req, l.text) for l in port.queue]}, misattributed "
                              f"{port.misattributed()}"))
        else:
            part.count("failing_deviation_executions")
        for key, msg in viols:
            part.violation(key, msg, {"kind": "method", "op": [op[0], op[1], list(op[2])],
                                      "pre_ops": [[o[0], o[1], list(o[2])] for o in pre_ops],
                                      "vector": chooser.vector()})
        part.add("states", core.digest((obs[:4], snap)))
        if chooser.deviations():
            part.count("faulted_executions")
            if len(part.samples) < 1 and failing:
                part.sample({"method": op[0], "environment_vector": chooser.vector(),
                             "observed": list(obs)})
        return core.digest(obs)

    explore(run, bound, stats, may_branch=lambda label: label.startswith("m:"))
    part.count("executions", stats.executions)
    part.count("transitions", stats.executions)
    part.count("method_executions", stats.executions)
    part.sets.setdefault("outcomes", set()).update(stats.outcomes)
    return part


# ----------------------------------------------------------------------------- (c) alignment

def run_pair(chooser, ops):
    obj, port, board = new_object(chooser, ALIGN_PROFILE)
    rets = []
    viols = []
    for i, (_label, method, args) in enumerate(ops):
        port.tag = f"a{i}:"
        ret, exc = call(obj, method, args)
        rets.append((repr(ret), type(exc).__name__ if exc else None))
        if obj.port is None:
            break
    fsum = ",".join(f"{t}{k}={v}" for (t, k, v) in port.faults) or "none"
    names = [o[0] for o in ops]
    # query_statusbyte is a single-read poll: a late reply is a *failing* deviation for it
    for tag, _kind, _value in port.faults:
        if ops[int(tag[1:-1])][1] == "query_statusbyte":
            return [], ("statusbyte-late", None), None
    if port.misattributed():
        viols.append((f"misattributed:{names}:{fsum}", f"{names} env[{fsum}]: replies consumed by "
                      f"the wrong request: {port.misattributed()}"))
    if port.queue:
        viols.append((f"leftover:{names}:{fsum}", f"{names} env[{fsum}]: lines left queued: "
                      f"{[(l.req, l.text) for l in port.queue]}"))
    if obj.err is not None:
        viols.append((f"err:{names}:{fsum}", f"{names} env[{fsum}]: conforming board, tolerated "
                      f"latencies, yet err={obj.err!r}"))
    return viols, (tuple(rets), obj.err), board.snapshot()


def _pair_job(args):
    ops, bound = args
    part = core.Part()
    stats = Stats()
    baseline = {}

    def run(chooser):
        viols, obs, snap = run_pair(chooser, ops)
        if not chooser.deviations():
            baseline["obs"] = (obs, snap)
        elif snap is None:
            part.count("statusbyte_latency_skipped")
        elif (obs, snap) != baseline["obs"]:
            viols.append((f"differential:{[o[0] for o in ops]}", f"{[o[0] for o in ops]} with "
                          f"tolerated latencies gave {(obs, snap)!r}, prompt run {baseline['obs']!r}"))
        for key, msg in viols:
            part.violation(key, msg, {"kind": "pair", "ops": [[o[0], o[1], list(o[2])] for o in ops],
                                      "vector": chooser.vector()})
        part.add("states", core.digest((obs, snap)))
        return core.digest(obs)

    explore(run, bound, stats)
    part.count("executions", stats.executions)
    part.count("transitions", stats.executions * len(ops))
    part.count("alignment_executions", stats.executions)
    if stats.executions > 1:
        part.count("faulted_executions", stats.executions - 1)
    return part


# ----------------------------------------------------------------------------- driver

def _dispatch(job):
    return {"prim": _prim_job, "method": _method_job, "pair": _pair_job}[job[0]](job[1])


def run(ctx):
    # command('RB') / command('BL') are never answered by a conforming board (it leaves the bus);
    # they are covered as primitives in (a) - where silence is the expected failing outcome -
    # and are left out of the per-method / alignment parts, whose baseline is a prompt reply
    ops = [op for op in operations()
           if not (op[1] in ("command", "query") and ref_name(op[2][0]).lower() in ("rb", "bl"))]
    prim_bound = ctx.pick(2, 3)
    meth_bound = ctx.pick(2, 3)
    jobs = [("prim", (kind, req, prim_bound)) for kind in ("command", "query") for req in REQUESTS]
    jobs += [("method", (op, meth_bound)) for op in ops]
    pair_ops = [op for op in ops if op[1] not in ("reboot", "bootload")]
    pair_bound = ctx.pick(2, 3)
    jobs += [("pair", ((a, b), pair_bound)) for a, b in itertools.product(pair_ops, repeat=2)]
    # (c'') long sessions: 60 / 97 requests on one object, one tolerated latency anywhere
    for length, step in ((60, 5), (97, 11)):
        session = tuple(pair_ops[(step * k + 2) % len(pair_ops)] for k in range(length))
        jobs.append(("pair", (session, 1)))
    if ctx.thorough:
        # (b') every method after one healthy operation (state left behind by another request)
        pre_names = ("motors_enable", "var_write", "write_nickname", "pen_lower", "query",
                     "timed_pause", "query_statusbyte")
        pres = [next(op for op in ops if op[1] == name) for name in pre_names]
        jobs += [("method", (op, 2, (pre,))) for pre in pres for op in ops]
        # (c') all ordered triples over one representative call per method
        reps = []
        for op in pair_ops:
            if op[1] not in {r[1] for r in reps}:
                reps.append(op)
        jobs += [("pair", (trio, 1)) for trio in itertools.product(reps, repeat=3)]
    part = core.fan_out(ctx, _dispatch, jobs)
    # "waits through up to 25 empty reads" is an allowance per request: a long session on one
    # object against a board that answers every request after one (three) empty reads
    from .c06 import slow_session          # pylint: disable=import-outside-toplevel
    for stall in (1, 2, 3):
        for length in ((30, 70) if stall < 3 else (9,)):
            for msg in slow_session("ebb3", stall, length):
                part.violation(f"slow_session:ebb3:{stall}:{length}", msg,
                               {"kind": "slow_session", "layer": "ebb3", "stall": stall,
                                "length": length})
            part.count("slow_sessions")
    # the application has switched logging to DEBUG: the conforming exchange of every request
    # string must look exactly the same (bytes, reads, result)
    from ..explore import Chooser                       # pylint: disable=import-outside-toplevel
    for kind in ("command", "query"):
        for req in REQUESTS:
            plain = run_primitive(Chooser([]), kind, req)
            with core.debug_logging():
                traced = run_primitive(Chooser([]), kind, req)
            if traced[:2] != plain[:2]:
                part.violation(f"debuglog:{kind}:{req.strip()}", f"{kind}({req!r}) with logging "
                               f"switched to DEBUG: {traced[:2]!r}; otherwise {plain[:2]!r}",
                               {"kind": "debuglog", "call": kind, "request": req})
            part.count("debug_logging_runs")
    cnt = part.counters
    execs = cnt.get("executions", 0)
    coverage = {
        "states": part.size("states"),
        "transitions": cnt.get("transitions", 0),
        "traces_validated_against_impl": execs,
        "evaluations": execs,
        "distinct_nontrivial": cnt.get("faulted_executions", 0),
        "rule": "(a) command/query x 16 request strings x all environment vectors with <= "
                f"{prim_bound} deviations; (b) {len(ops)} request-method calls (introspected) x "
                f"all vectors with <= {meth_bound} deviations; (c) all ordered pairs of request "
                "methods x per-reply latencies in {0,1,25}; two sessions of 60 and 97 requests on "
                "one object with one tolerated latency anywhere" +
                ("; thorough: every method after each of 7 healthy operations (<= 2 deviations) "
                 "and all ordered triples of one call per method (<= 1 deviation)"
                 if ctx.thorough else "") +
                "; non-trivial = executions with at least one deviation from the prompt "
                "conforming answer",
        "samples": core.rotate(part.samples, ctx.seed, 4),
        "primitive_executions": cnt.get("prim_executions", 0),
        "method_executions": cnt.get("method_executions", 0),
        "alignment_executions": cnt.get("alignment_executions", 0),
        "failing_deviation_executions": cnt.get("failing_deviation_executions", 0),
        "nonfailing_deviation_executions": cnt.get("nonfailing_deviation_executions", 0),
        "distinct_outcomes": part.size("outcomes"),
        "request_strings": REQUESTS,
        "request_methods": sorted({op[1] for op in ops}),
        "exhaustive": True,
    }
    assumptions = [
        "board model EBB3Board (future syntax: every reply starts with the request name)",
        "up-to-25-empty-reads clause asserted for command/query and everything built on them; "
        "query_statusbyte is a single-read poll (any latency counts as a failing deviation)",
        "I/O exceptions on command('RB' / 'R' / 'BL') are deliberately ignored by the library "
        "(board drops off USB); for these only no-raise is asserted (query() of the same names "
        "records a timeout and is held to the full clause); reboot()/bootload() report failure by False",
        "malformed payloads after a correct name are not injected in (b); empty request strings "
        "are outside the quantifier",
    ]
    return {"part": part, "coverage": coverage, "assumptions": assumptions}


def replay(case):
    if case.get("kind") == "slow_session":
        from .c06 import slow_session      # pylint: disable=import-outside-toplevel
        return slow_session(case["layer"], case["stall"], case["length"])
    if case.get("kind") == "debuglog":
        from ..explore import Chooser                   # pylint: disable=import-outside-toplevel
        plain = run_primitive(Chooser([]), case["call"], case["request"])
        with core.debug_logging():
            traced = run_primitive(Chooser([]), case["call"], case["request"])
        return [] if traced[:2] == plain[:2] else \
            [f"{case['call']}({case['request']!r}) with logging switched to DEBUG: "
             f"{traced[:2]!r}; otherwise {plain[:2]!r}"]
    vector = [tuple(v) for v in case["vector"]]
    if case["kind"] == "prim":
        (viols, _o, _s), _c = run_vector(
            lambda ch: run_primitive(ch, case["call"], case["request"]), vector)
        return [m for _k, m in viols]
    if case["kind"] == "method":
        op = (case["op"][0], case["op"][1], tuple(case["op"][2]))
        pre_ops = tuple((o[0], o[1], tuple(o[2])) for o in case.get("pre_ops", ()))
        base = run_method(__import__("mc.explore", fromlist=["Chooser"]).Chooser([]), op,
                          pre_ops=pre_ops)
        (viols, obs, snap, failing, port), chooser = run_vector(
            lambda ch: run_method(ch, op, pre_ops=pre_ops), vector)
        msgs = [m for _k, m in viols]
        if chooser.deviations() and not failing and (obs, snap) != (base[1], base[2]):
            msgs.append(f"{op[0]} with tolerated latencies {port.faults} gave {(obs, snap)!r}, "
                        f"prompt run gave {(base[1], base[2])!r}")
        if chooser.deviations() and not failing and (port.queue or port.misattributed()):
            msgs.append(f"{op[0]}: misaligned under tolerated latencies")
        if not chooser.deviations():
            if obs[1] is not None or obs[2] is not None:
                msgs.append(f"{op[0]} on a conforming prompt board: err={obs[1]!r} exc={obs[2]!r}")
        return msgs
    ops = [(o[0], o[1], tuple(o[2])) for o in case["ops"]]
    from ..explore import Chooser                       # pylint: disable=import-outside-toplevel
    base = run_pair(Chooser([]), ops)
    (viols, obs, snap), _c = run_vector(lambda ch: run_pair(ch, ops), vector)
    msgs = [m for _k, m in viols]
    if snap is not None and (obs, snap) != (base[1], base[2]):
        msgs.append(f"pair differs from the prompt run: {(obs, snap)!r} vs {(base[1], base[2])!r}")
    return msgs
