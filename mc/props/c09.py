"""C09 - vertex reduction keeps the path within tolerance of the original.

All vertex lists up to a length over the 3x3 integer lattice (repeated points, collinear
runs, reversals, closed loops are all in there by construction) x tolerances; long
collinear runs with one off-line point; exact point-to-segment distances in Fractions.
Also: the fast predicate points_in_tolerance agrees with max_dist_from_n_points.
"""
import itertools
from fractions import Fraction as F

from .. import core
from ..geom import sq_dist_point_segment

PROPERTY = "C09"
LATTICE = [(x, y) for x in range(3) for y in range(3)]
TOLS = [-1, 0, 0.5, 1, 1.2, 1.5, 2.5]     # 1.2, 2.5: between lattice spans (1, 2) and diagonals


def _lib():
    from plotink import plot_utils          # pylint: disable=import-outside-toplevel
    return plot_utils


def check_list(points, tol, slack=0, as_tuples=False):
    """points: tuple of (x, y).  Returns [(clause, msg)], number deleted.
    slack: relative allowance on tol^2 for inputs whose distances the implementation can only
    compute with floating-point rounding (0 for the exact integer lattice)."""
    plot_utils = _lib()
    # fresh vertex objects (identity matters); tuples are a legitimate vertex type too
    original = [tuple([p[0], p[1]]) if as_tuples else list(p) for p in points]
    work = list(original)
    desc = f"supersample({[tuple(p) for p in original]}, {tol})" + \
        (" [vertices as tuples]" if as_tuples else "")
    core.rejected(plot_utils.supersample, [[0, 0], [1], [2, 2]], 1)           # a vertex without y
    # the reduction may look at every vertex of a run once per vertex it adds to the run (the
    # present code does): the time allowed grows with the square of the length, generously - the
    # clause is about not returning at all, not about speed, also on a loaded machine
    budget = 5.0 + 30.0 * (len(points) / 1000.0) ** 2
    try:
        with core.watchdog(budget):
            ret = plot_utils.supersample(work, tol)
    except core.CaseTimeout:
        return [("loop", f"{desc} did not return within {budget:.0f} s")], 0
    except Exception as exc:                # pylint: disable=broad-except
        return [("raise", f"{desc} raised {type(exc).__name__}: {exc}")], 0
    out = []
    if ret is not None:
        out.append(("ret", f"{desc} returned {ret!r}"))
    # subsequence by identity
    idx = []
    pos = 0
    for vertex in work:
        while pos < len(original) and original[pos] is not vertex:
            pos += 1
        if pos == len(original):
            out.append(("subsequence", f"{desc} left {work!r}: not an in-order subsequence of "
                        f"the same vertex objects"))
            return out, 0
        idx.append(pos)
        pos += 1
    if any(list(v) != list(points[i]) for v, i in zip(work, idx)):
        out.append(("mutated", f"{desc} changed vertex coordinates: {work!r}"))
    deleted = len(original) - len(work)
    if len(original) <= 2 or tol <= 0:
        if deleted:
            out.append(("unchanged", f"{desc} deleted {deleted} vertices; lists of <= 2 vertices "
                        f"and non-positive tolerances must be left unchanged"))
        return out, deleted
    if not idx or idx[0] != 0 or idx[-1] != len(original) - 1:
        out.append(("ends", f"{desc} left indices {idx}: first and last vertex must survive"))
        return out, deleted
    # the same path with ONE object per distinct location (a path closed with
    # path.append(path[0]), a shared node table): the same positions must go, by position
    if len(set(points)) < len(points) and not as_tuples:
        table = {}
        shared = [table.setdefault(tuple(p), list(p)) for p in points]
        try:
            with core.watchdog(budget):
                plot_utils.supersample(shared, tol)
            left_over = [tuple(v) for v in shared]
        except Exception as exc:            # pylint: disable=broad-except
            left_over = f"raised {type(exc).__name__}: {exc}"
        except core.CaseTimeout:
            left_over = f"no return within {budget:.0f} s"
        if left_over != [tuple(points[i]) for i in idx]:
            out.append(("shared_objects", f"{desc}: with equal vertices held in one shared object "
                        f"the result is {left_over!r}; with separate objects it keeps indices "
                        f"{idx}"))
    tol2 = F(tol) * F(tol) * (1 + F(slack))
    for left, right in zip(idx, idx[1:]):
        for k in range(left + 1, right):
            dist2 = sq_dist_point_segment(points[k], points[left], points[right])
            if not dist2 < tol2:
                out.append(("too_far", f"{desc} kept indices {idx}: deleted vertex {k} "
                            f"{points[k]} is at distance^2 {dist2} >= {tol2} from the segment "
                            f"{points[left]}-{points[right]} joining its surviving neighbours"))
    return out, deleted


def check_predicate(points, tol, ref_slack=1e-9):
    """points_in_tolerance(p, tol) == (max_dist_from_n_points(p) < tol); exact ties are judged
    strictly where all inputs are exact, skipped (and counted) elsewhere."""
    plot_utils = _lib()
    try:
        fast = plot_utils.points_in_tolerance(list(points), tol)
        ref = plot_utils.max_dist_from_n_points(list(points))
    except Exception as exc:                # pylint: disable=broad-except
        return [("pred_raise", f"predicate on {points} tol {tol} raised {exc!r}")], False
    exact2 = max(sq_dist_point_segment(p, points[0], points[-1]) for p in points[1:-1])
    tol2 = F(tol) * F(tol)
    tie = exact2 == tol2
    exact_inputs = all(isinstance(v, int) for p in points for v in p) and \
        float(tol) * 64 == int(float(tol) * 64)
    if tie and not exact_inputs:
        return [], True                     # a tie the library can only see through rounding
    out = []
    if tie:
        # integer coordinates and a dyadic tolerance: every quantity is exact, and a vertex at
        # distance exactly tol is *not* closer than tol (tol = 0 with collinear points included)
        if bool(fast):
            out.append(("pred_fast", f"points_in_tolerance({points}, {tol}) = {fast!r}; the "
                        f"largest distance is exactly {tol}, which is not closer than {tol}"))
        return out, True
    if bool(fast) != (exact2 < tol2):
        out.append(("pred_fast", f"points_in_tolerance({points}, {tol}) = {fast!r}; the largest "
                    f"exact squared distance is {exact2} vs tol^2 {tol2}"))
    if abs(ref - float(exact2) ** 0.5) > ref_slack:
        out.append(("pred_ref", f"max_dist_from_n_points({points}) = {ref!r}, exact "
                    f"{float(exact2) ** 0.5!r}"))
    if bool(fast) != (ref < tol) and abs(ref - tol) > 1e-12:
        out.append(("pred_agree", f"points_in_tolerance({points}, {tol}) = {fast!r} but "
                    f"max_dist_from_n_points = {ref!r}"))
    return out, False


def _lists_chunk(args):
    prefixes, length, tols = args[:3]
    unit = args[3] if len(args) > 3 else 1       # the same lists in other units (exact powers of 2)
    part = core.Part()
    for prefix in prefixes:
        for rest in itertools.product(LATTICE, repeat=length - len(prefix)):
            points = prefix + rest
            if unit != 1:
                points = tuple((x * unit, y * unit) for x, y in points)
            for tol in tols:
                bad, deleted = check_list(points, tol)
                if length <= 4:
                    bad += check_list(points, tol, as_tuples=True)[0]
                    part.count("cases")
                part.count("cases")
                if deleted:
                    part.count("nontrivial")
                    if deleted >= 2:
                        part.count("multi_vertex_runs")
                for clause, msg in bad:
                    part.violation(f"{clause}:{points}:{tol}", msg,
                                   {"kind": "list", "points": [list(p) for p in points], "tol": tol,
                                    "as_tuples": "as tuples" in msg})
    return part


def _collinear_chunk(args):
    lists, tols = args
    part = core.Part()
    for points in lists:
        for tol in tols:
            bad, deleted = check_list(points, tol)
            part.count("cases")
            part.count("long_run_cases")
            if deleted:
                part.count("nontrivial")
            for clause, msg in bad:
                part.violation(f"{clause}:{points}:{tol}", msg,
                               {"kind": "list", "points": [list(p) for p in points], "tol": tol})
    if lists:
        part.sample({"points": [list(p) for p in lists[len(lists) // 2]], "tolerances": tols},
                    limit=1)
    return part


def _pred_chunk(args):
    tuples, tols = args
    part = core.Part()
    for points in tuples:
        for tol in tols:
            if tol < 0:
                continue                    # the predicate squares its tolerance
            bad, tie = check_predicate(points, tol)
            part.count("predicate_cases")
            if tie:
                part.count("predicate_ties_skipped")
            for clause, msg in bad:
                part.violation(f"{clause}:{points}:{tol}", msg,
                               {"kind": "pred", "points": [list(p) for p in points], "tol": tol})
    return part


def scaled_cases(ctx):
    """Long oblique chords with an interior vertex a fixed multiple of the tolerance off the
    chord (well away from the threshold on either side): coordinate magnitudes up to ~1e8 with
    tolerances down to 1e-3, where a numerically careless distance formula has lost all its
    digits.  The oracle is exact on the float coordinates actually handed over."""
    dirs = [(3, 1), (1, 3), (-2, 5), (7, -3)]
    scales = [1e3, 1e5, 1e6, 1e7]
    origins = [(0.0, 0.0), (1e6, -2e6), (0.1, 0.2)]
    factors = [0.25, -0.25, 0.5, -0.5, 2.0, -2.0, 4.0, -4.0]
    # 1e-6 and 3e-7 on chords of 1e7 units: deviations of 1e-13 of the chord - below any
    # "relative noise floor" a distance formula might apply to its cross product
    tols = [0.001, 0.01, 0.1, 1e-6, 3e-7]
    if ctx.thorough:
        dirs += [(1, 1), (5, 4), (-9, -2)]
        scales += [1e4, 3e7]
        factors += [0.75, -0.75, 1.5, -1.5]
    out = []
    for (d_x, d_y), scale, (o_x, o_y), tol in itertools.product(dirs, scales, origins, tols):
        a_pt = (o_x, o_y)
        b_pt = (o_x + scale * d_x, o_y + scale * d_y)
        norm = (d_x * d_x + d_y * d_y) ** 0.5
        n_x, n_y = -d_y / norm, d_x / norm
        verts = {}
        for par in (0.25, 0.5, 0.8):
            for fac in factors:
                verts[(par, fac)] = (a_pt[0] + par * (b_pt[0] - a_pt[0]) + fac * tol * n_x,
                                     a_pt[1] + par * (b_pt[1] - a_pt[1]) + fac * tol * n_y)
                out.append(((a_pt, verts[(par, fac)], b_pt), tol))
        # ... and a vertex *beyond* an end of the chord (a spike the path runs out to and back
        # from): its distance is to the end vertex, and a formula that reaches it by expanding
        # |p - b|^2 around the far-away first vertex has cancelled it away
        for fac in (0.25, 0.5, 2.0, 4.0):
            past = (b_pt[0] + fac * tol * d_x / norm, b_pt[1] + fac * tol * d_y / norm)
            before = (a_pt[0] - fac * tol * d_x / norm, a_pt[1] - fac * tol * d_y / norm)
            out.append(((a_pt, past, b_pt), tol))
            out.append(((a_pt, before, b_pt), tol))
            out.append(((a_pt, verts[(0.5, 0.25)], past, b_pt), tol))
        out.append(((a_pt, verts[(0.25, 0.5)], verts[(0.5, 4.0)], b_pt), tol))
        out.append(((a_pt, verts[(0.25, -0.25)], verts[(0.5, 0.5)], verts[(0.8, 0.25)], b_pt), tol))
    return out


def _scaled_chunk(cases):
    part = core.Part()
    for points, tol in cases:
        chord = ((points[-1][0] - points[0][0]) ** 2 + (points[-1][1] - points[0][1]) ** 2) ** 0.5
        bad, deleted = check_list(points, tol, slack=F(1, 10 ** 9))
        bad_pred, tie = check_predicate(points, tol, ref_slack=1e-9 + 4e-16 * chord)
        part.count("cases")
        part.count("predicate_cases")
        part.count("scaled_cases")
        if deleted:
            part.count("nontrivial")
        if tie:
            part.count("predicate_ties_skipped")
        for clause, msg in bad:
            part.violation(f"{clause}:{points}:{tol}", msg,
                           {"kind": "list", "points": [list(p) for p in points], "tol": tol,
                            "slack": 1e-9})
        for clause, msg in bad_pred:
            part.violation(f"{clause}:{points}:{tol}", msg,
                           {"kind": "pred", "points": [list(p) for p in points], "tol": tol,
                            "ref_slack": 1e-9 + 4e-16 * chord})
    return part


def dense_cases(ctx):
    """Heavily oversampled smooth curves: one greedy run swallows dozens to hundreds of
    vertices (far more than any list over the small lattice), the chord keeps rotating about
    the run's start, and the vertices in the middle of the run are the ones that drift out."""
    import math                             # pylint: disable=import-outside-toplevel
    out = []
    sizes = [400, 1000] + ([3000] if ctx.thorough else [])
    for count in sizes:
        circle = tuple((math.cos(2 * math.pi * k / count), math.sin(2 * math.pi * k / count))
                       for k in range(count + 1))
        for run in (20, 40, 70, 100, 200):
            # 1.07 x the sagitta of a run of that length: well off the exact tie
            out.append((circle, 1.07 * (1 - math.cos(math.pi * run / count))))
    # list *length* around and beyond the round numbers a divide-and-conquer threshold would
    # pick (1000, 1200, 2048, 2400, 4096, 5000): three quarters of a circle, runs of ~20 / ~45
    for count in (1001, 1201, 1500, 2049, 2401) + ((4097, 5000) if ctx.thorough else (5000,)):
        step = 1.5 * math.pi / count
        long_arc = tuple((10 * math.sin(step * k), 10 - 10 * math.cos(step * k))
                         for k in range(count))
        for run in (20, 45):
            out.append((long_arc, 1.07 * 10 * (1 - math.cos(step * run / 2))))
    # ... and list lengths taken from the integer literals of plot_utils' own source (a stride, a
    # block size, a split threshold is written in the code that uses it)
    for const in core.harvest_ints(_lib(), low=8, high=3000):
        for count in sorted({const - 1, const, const + 1, const + 2, 2 * const + 1}):
            step = 1.5 * math.pi / count
            arc_c = tuple((10 * math.sin(step * k), 10 - 10 * math.cos(step * k)) for k in range(count))
            out.append((arc_c, 1.07 * 10 * (1 - math.cos(step * min(20, count // 3 + 1) / 2))))
            straight = tuple((float(k), 0.0) for k in range(count)) + ((float(count - 1), 1.0),)
            out.append((straight, 0.25))
    # ... and, for the larger constants, one dense straight stroke of that many vertices (and a
    # few dozen more) that runs past its turning point and doubles back: the window supersample
    # tests grows by one vertex at a time, so it crosses every length on the way
    for const in core.harvest_ints(_lib(), low=3001, high=10000 if not ctx.thorough else 40000):
        count = const + 60
        stroke = tuple((0.01 * k, 0.0) for k in range(count)) + ((0.003 * count, 0.0),
                                                                  (0.003 * count, 5.0))
        out.append((stroke, 0.05))
    arc = tuple((10 * math.sin(0.001 * k), 10 - 10 * math.cos(0.001 * k)) for k in range(601))
    out += [(arc, tol) for tol in (0.002, 0.01, 0.03)]
    spiral = tuple(((1 + 0.002 * k) * math.cos(0.01 * k), (1 + 0.002 * k) * math.sin(0.01 * k))
                   for k in range(900))
    out += [(spiral, tol) for tol in (0.0005, 0.005, 0.05)]
    wave = tuple((0.01 * k, math.sin(0.01 * k)) for k in range(800))
    out += [(wave, tol) for tol in (0.001, 0.01, 0.1)]
    line = tuple((0.25 * k, 0.125 * k) for k in range(300)) + ((80.0, 3.0),)
    out += [(line, tol) for tol in (0.01, 0.5)]
    # a stroke retraced to (almost) where it began: the chord from the run's start to its end is
    # a few units in the last place long - not zero - and the vertex in between is far away
    for x_0 in (1.0, 1024.0, 0.1, -3.0):
        ulp = math.ulp(x_0)
        for gap in (2, 4, 64):
            for height in (1.0, 2.5, 1e-3):
                for tol in (0.01, 0.05, height / 2):
                    if tol <= 0:
                        continue
                    loop = ((x_0, 0.0), (x_0 + (gap // 2) * ulp, height), (x_0 + gap * ulp, 0.0))
                    out.append((loop, tol))
                    out.append((tuple((y, x) for x, y in loop), tol))
                    out.append((((x_0 - 5.0, 0.0),) + loop + ((x_0 + 7.0, -1.0),), tol))
    # near-repeats far from the origin: consecutive vertices closer than 1e-9 of their
    # magnitude (equal for math.isclose) yet four tolerances apart, creeping sideways off a
    # chord - along either axis, as tuples; all coordinates exact
    for base in (float(1 << 20), float(1 << 30)):
        step = base / (1 << 31)
        for count in (2, 4, 8, 40):
            creep = [(base + 8, base + k * step) for k in range(count + 1)]
            path = [(base, base)] + creep + [(base + 16, base + count * step)]
            out.append((tuple(path), step / 4))
            out.append((tuple((y, x) for x, y in path), step / 4))
            out.append((tuple(reversed(path)), step / 4))
    return out


def exact_tie_cases():
    """A vertex at distance *exactly* the tolerance from a chord of whole-number length 1..30
    (axis-parallel, and along 3:4 / 5:12 directions where the perpendicular offset is whole too),
    its foot strictly inside the chord: "closer than the tolerance" is strict, so it stays - an
    evaluation that multiplies by a rounded reciprocal of the squared length (49, 98, 196 ...)
    comes out one unit in the last place short.  Returns (points, tol) pairs."""
    out = []
    chords = [((a, 0), (0, 1)) for a in range(1, 31)] + [((0, a), (1, 0)) for a in range(1, 31)]
    for k in (1, 2, 3, 4, 7):
        chords += [((3 * k, 4 * k), (-4, 3)), ((4 * k, 3 * k), (3, -4)), ((-3 * k, 4 * k), (4, 3))]
    for k in (1, 2):
        chords += [((5 * k, 12 * k), (-12, 5)), ((12 * k, -5 * k), (5, 12))]
    for (d_x, d_y), (n_x, n_y) in chords:
        norm2 = n_x * n_x + n_y * n_y           # 1, 25 or 169: the offset n has length 1, 5, 13
        unit = {1: 1, 25: 5, 169: 13}[norm2]
        steps = max(abs(d_x), abs(d_y))
        feet = sorted({(d_x * j // steps, d_y * j // steps) for j in range(1, steps)
                       if (d_x * j) % steps == 0 and (d_y * j) % steps == 0})
        for foot in feet[:: max(1, len(feet) // 4)]:
            for mult in (1, 2):
                vertex = (foot[0] + mult * n_x, foot[1] + mult * n_y)
                tol = mult * unit
                out.append((((0, 0), vertex, (d_x, d_y)), tol))
                out.append((((0, 0), vertex, (d_x, d_y), (d_x + 3, d_y + 9)), tol))
                out.append((((5, -7), (0, 0), vertex, (d_x, d_y)), tol))
    return out


def _tie_chunk(cases):
    part = core.Part()
    for points, tol in cases:
        part.count("exact_tie_cases")
        if len(points) == 3:
            bad, _tie = check_predicate(points, tol)
            part.count("predicate_cases")
            for clause, msg in bad:
                part.violation(f"{clause}:tie:{points}:{tol}", msg,
                               {"kind": "pred", "points": [list(p) for p in points], "tol": tol})
        bad, _deleted = check_list(points, tol)
        part.count("cases")
        for clause, msg in bad:
            part.violation(f"{clause}:tie:{points}:{tol}", msg,
                           {"kind": "list", "points": [list(p) for p in points], "tol": tol})
    return part


def wide_windows(ctx):
    """One window of very many vertices handed to the predicate directly (a window length past
    which the code switches method is a number written in its source: every harvested constant
    up to 100000, one below to two above, and twice it): integer coordinates, so the exact
    verdict is beyond doubt.  Shapes: the stroke overshoots the chord's far end and returns, it
    starts by backing away from the chord, it bulges once in the middle, it zigzags within
    reach.  Returns (points, tolerances) pairs."""
    consts = [c for c in core.harvest_ints(_lib(), low=3001, high=100000)]
    sizes = sorted({n for c in consts for n in (c - 1, c, c + 1, c + 2, 2 * c + 1)})
    if not ctx.thorough:
        sizes = [n for n in sizes if n <= 40000]
    out = []
    for count in sizes:
        inner = count - 2
        far = inner + 5
        over = ((0, 0),) + tuple((k + 1, 0) for k in range(inner - 1)) + ((far, 0), (far // 3, 0))
        out.append((over, (0.5, far // 2, far)))
        back = ((far // 2, 0),) + tuple((max(far // 2 - 1 - k, 0), 0) for k in range(inner // 2)) \
            + tuple((k, 0) for k in range(inner - inner // 2)) + ((far, 0),)
        out.append((back, (0.5, far // 4, far)))
        bulge = tuple((k, 2 if k == count // 2 else 0) for k in range(count))
        out.append((bulge, (1, 2, 3)))
        zig = tuple((k, k % 2) for k in range(count - 1)) + ((count - 1, 0),)
        out.append((zig, (0.5, 1, 2)))
    return out


def _wide_chunk(cases):
    part = core.Part()
    for points, tols in cases:
        for tol in tols:
            bad, _tie = check_predicate(points, tol)
            part.count("predicate_cases")
            part.count("wide_window_cases")
            for clause, msg in bad:
                short = f"<{len(points)} vertices: {list(points[:3])} ... {list(points[-3:])}>"
                part.violation(f"{clause}:wide:{len(points)}:{points[1]}:{points[-1]}:{tol}",
                               msg.replace(str(points), short)[:600],
                               {"kind": "pred", "points": [list(p) for p in points], "tol": tol})
    return part


def _dense_chunk(cases):
    part = core.Part()
    for points, tol in cases:
        bad, deleted = check_list(points, tol, slack=F(1, 10 ** 9))
        part.count("cases")
        part.count("dense_cases")
        if deleted:
            part.count("nontrivial")
        part.counters["max_deleted_in_one_list"] = max(
            part.counters.get("max_deleted_in_one_list", 0), deleted)
        for clause, msg in bad[:3]:
            short = f"<{len(points)}-vertex curve starting {points[:2]}>"
            part.violation(f"{clause}:dense:{core.digest((points, tol))}",
                           msg.replace(str([tuple(p) for p in points]), short)[:600],
                           {"kind": "list", "points": [list(p) for p in points], "tol": tol,
                            "slack": 1e-9})
    return part


def long_lists(ctx):
    """Length 7..9: points of one line with one off-line point in every position."""
    line = [(k, 0) for k in range(5)]
    offs = [(2, 1), (0, 2), (4, -1)]
    out = []
    for length in (7, 8, 9):
        pool = line if not ctx.thorough else line + [(2, 0)]
        for combo in itertools.product(pool, repeat=length - 1 if length < 9 else 4):
            base = list(combo)
            if length == 9:
                base = base + base          # repeated pattern, 8 points
            for off in offs:
                for pos in range(0, len(base) + 1, 2):
                    out.append(tuple(base[:pos] + [off] + base[pos:]))
    return sorted(set(out))


def run(ctx):
    max_len = ctx.pick(5, 6)
    tols = list(TOLS)
    seed_tol = [0.25, 0.75, 1.25, 2.0, 3.0][ctx.seed % 5]
    if seed_tol not in tols:
        tols.append(seed_tol)
    jobs = []
    for length in range(0, max_len + 1):
        if length <= 2:
            jobs.append(("lists", ([()], length, tols)))
        else:
            prefixes = [(a, b) for a in LATTICE for b in LATTICE]
            for chunk in core.split(prefixes, 27):
                jobs.append(("lists", (chunk, length, tols)))
    # all 4-vertex lists again in units of 2^200 and 2^-200 (squares and cross products stay
    # finite floats, but nothing absolute survives: 1e-9, 1e-12, float epsilon, 1.0)
    for unit in (2.0 ** 200, 2.0 ** -200):
        prefixes = [(a, b) for a in LATTICE for b in LATTICE]
        for chunk in core.split(prefixes, 9):
            jobs.append(("lists", (chunk, 4, [0.5 * unit, unit, 1.2 * unit], unit)))
    longs = long_lists(ctx)
    step = 1 if ctx.thorough else 4
    for chunk in core.split(longs[::step], 16):
        jobs.append(("collinear", (chunk, [0.5, 1, 1.5])))
    pred = list(itertools.product(LATTICE, repeat=4))
    if ctx.thorough:
        pred += list(itertools.product(LATTICE, repeat=5))
    else:
        pred += list(itertools.product(LATTICE, repeat=5))[::7]
    for chunk in core.split(pred, 16):
        jobs.append(("pred", (chunk, tols + [0.7071067811865476, 1.4142135623730951])))
    for chunk in core.split(scaled_cases(ctx), 16):
        jobs.append(("scaled", chunk))
    for chunk in core.split(dense_cases(ctx), 16):
        jobs.append(("dense", chunk))
    for case in wide_windows(ctx):
        jobs.append(("wide", [case]))
    for chunk in core.split(exact_tie_cases(), 8):
        jobs.append(("tie", chunk))
    part = core.fan_out(ctx, _dispatch, jobs)
    from .. import callforms              # pylint: disable=import-outside-toplevel
    part.merge(callforms.explore("C09"))
    cnt = part.counters
    total = cnt.get("cases", 0) + cnt.get("predicate_cases", 0)
    coverage = {
        "states": total,
        "transitions": total,
        "traces_validated_against_impl": total,
        "evaluations": total,
        "distinct_nontrivial": cnt.get("nontrivial", 0),
        "rule": f"all vertex lists of length 0..{max_len} over the 3x3 lattice x tolerances "
                f"{tols}; lists of length 7-9 on a line with one off-line point; all 4-point "
                "(and 5-point) tuples for the predicate comparison; the 4-vertex lists in units of 2^200 and 2^-200; long oblique chords (1e3..1e7 "
                "units, offsets to 2e6) with vertices 0.25..4 tolerances off the chord or beyond one of its ends; oversampled "
                "curves (runs of 20..200 vertices; lists of 1001..5000 vertices); near-repeated vertices 2^20 / 2^30 units out "
                "creeping off a chord; "
                "non-trivial = simplification "
                "deleted at least one vertex; all (list, tolerance) pairs distinct",
        "samples": core.rotate(part.samples, ctx.seed, 4) or
        [{"points": [[0, 0], [1, 0], [2, 0]], "tolerance": 0.5}],
        "multi_vertex_runs": cnt.get("multi_vertex_runs", 0),
        "long_run_cases": cnt.get("long_run_cases", 0),
        "scaled_cases": cnt.get("scaled_cases", 0),
        "dense_cases": cnt.get("dense_cases", 0),
        "max_deleted_in_one_list": cnt.get("max_deleted_in_one_list", 0),
        "predicate_cases": cnt.get("predicate_cases", 0),
        "predicate_ties_skipped": cnt.get("predicate_ties_skipped", 0),
        "exhaustive": True,
    }
    assumptions = ["distance of a deleted vertex is measured to the segment between its two "
                   "surviving neighbours, exactly (Fractions), strict '<' against tol^2",
                   "exact ties (distance == tolerance) are skipped in the predicate comparison"]
    coverage["rule"] += ("; one window of c-1..c+2 and 2c+1 vertices for every constant c in 3001..100000 of plot_utils' source (overshoot, back-track, bulge, zigzag; integer coordinates) handed to the predicate, and a doubling-back dense stroke of c+60 vertices through supersample")
    coverage["rule"] += ('; 1824 lists with a vertex at distance exactly the tolerance from whole-number chords of length 1..30 (axis-parallel, 3:4, 5:12 directions)')
    return {"part": part, "coverage": coverage, "assumptions": assumptions}


def _dispatch(job):
    return {"lists": _lists_chunk, "collinear": _collinear_chunk, "pred": _pred_chunk,
            "scaled": _scaled_chunk, "dense": _dense_chunk, "wide": _wide_chunk, "tie": _tie_chunk}[job[0]](job[1])


def replay(case):
    if case.get("kind") == "callform":
        from .. import callforms          # pylint: disable=import-outside-toplevel
        return callforms.replay(case)
    points = tuple(tuple(p) for p in case["points"])
    if case["kind"] == "pred":
        return [m for _c, m in check_predicate(points, case["tol"],
                                               case.get("ref_slack", 1e-9))[0]]
    slack = F(1, 10 ** 9) if case.get("slack") else 0
    return [m for _c, m in check_list(points, case["tol"], slack,
                                      case.get("as_tuples", False))[0]]
