"""C13 - grid index: nearest() returns a live path end that no neighbouring end beats.

E3 over geometry (all path sets with 1-2 paths, thorough 3, over the 3x3 lattice x bins per
side x reverse) x E2 over removal histories: states are sets of removed paths, every removal
order is executed and states reached by different orders are compared field by field; in
every state nearest() is asked for a lattice of query points inside, on, between and outside
the grid, against a brute-force reference.
"""
import itertools
import math

from .. import core

PROPERTY = "C13"
LATTICE = [(x, y) for x in range(3) for y in range(3)]
CORNERS = [(0, 0), (2, 0), (0, 2), (2, 2)]
QUERY_COORDS = [-1, -0.5, 0, 0.5, 1, 1.5, 2, 2.5, 3]


def _lib():
    from plotink import spatial_grid        # pylint: disable=import-outside-toplevel
    return spatial_grid


def ends_of(paths, reverse):
    """[(identifier, point)] of every path end the index may return."""
    out = [(i, p[0]) for i, p in enumerate(paths)]
    if reverse:
        out += [(len(paths) + i, p[1]) for i, p in enumerate(paths)]
    return out


def has_extent(paths, reverse):
    pts = [pt for _i, pt in ends_of(paths, reverse)]
    return len({p[0] for p in pts}) > 1 or len({p[1] for p in pts}) > 1


def cell_of(index, point):
    max_bin = index.bins_per_side - 1
    c_x = max(min(math.floor((point[0] - index.xmin) / index.bin_size_x), max_bin), 0)
    c_y = max(min(math.floor((point[1] - index.ymin) / index.bin_size_y), max_bin), 0)
    return c_x, c_y


NEAR_TIE = 1 + 2.0 ** -46


def check_query(index, paths, reverse, removed, query, end_cells):
    """One nearest() call in one state.  Returns (clause, msg) or None."""
    n_paths = len(paths)
    try:
        got = index.nearest(list(query))
    except Exception as exc:                # pylint: disable=broad-except
        return ("raise", f"nearest({query}) raised {type(exc).__name__}: {exc}")
    live = [(ident, pt, cell) for (ident, pt, cell) in end_cells
            if (ident % n_paths if ident >= n_paths else ident) not in removed]
    if not live:
        if got is not None:
            return ("none", f"nearest({query}) = {got!r} although every path has been removed")
        return None
    if got is None:
        return ("none", f"nearest({query}) = None although paths {sorted(set(range(n_paths)) - removed)} remain")
    if not isinstance(got, int) or isinstance(got, bool) or not 0 <= got < (2 if reverse else 1) * n_paths:
        return ("ident", f"nearest({query}) = {got!r} is not an end identifier")
    path = got - n_paths if got >= n_paths else got
    if path in removed:
        return ("removed", f"nearest({query}) = {got} denotes an end of removed path {path}")
    point = paths[path][1] if got >= n_paths else paths[path][0]
    dist = (point[0] - query[0]) ** 2 + (point[1] - query[1]) ** 2
    q_cell = cell_of(index, query)
    best_all = math.inf
    best_near = math.inf
    for _ident, pnt, cell in live:
        d_2 = (pnt[0] - query[0]) ** 2 + (pnt[1] - query[1]) ** 2
        best_all = min(best_all, d_2)
        if abs(cell[0] - q_cell[0]) <= 1 and abs(cell[1] - q_cell[1]) <= 1:
            best_near = min(best_near, d_2)
    # "at least as close" is judged on the squared distances between the given coordinates with a
    # relative allowance of 2^-46: whichever way an implementation measures (dx*dx + dy*dy,
    # math.dist, offsets from the grid origin), two ends whose distances differ by a few units in
    # the last place are a tie that floating point cannot decide, and either answer is accepted
    if best_near < math.inf:
        if dist > best_near * NEAR_TIE:
            return ("beaten", f"nearest({query}) = {got} at squared distance {dist}, but a live "
                    f"end in the query's cell neighbourhood is at {best_near}")
    elif dist > best_all * NEAR_TIE:
        return ("fallback", f"nearest({query}) = {got} at squared distance {dist}; the "
                f"neighbourhood is empty and the globally closest live end is at {best_all}")
    # independent of cell assignment: true nearest within one cell width of an in-grid query
    width = min(index.bin_size_x, index.bin_size_y)
    side = index.bins_per_side
    in_grid = index.xmin <= query[0] <= index.xmin + side * index.bin_size_x and \
        index.ymin <= query[1] <= index.ymin + side * index.bin_size_y
    if in_grid and best_all <= width * width and dist > best_all * NEAR_TIE:
        return ("true_nearest", f"nearest({query}) = {got} at squared distance {dist}; the true "
                f"nearest live end is at {best_all}, within one cell width {width}")
    return None


# An unrelated index built before the index under test in every case and looked at again
# afterwards: indexes living in the same process must not influence each other.
DECOY_PATHS = [[[10, 10], [14, 12]], [[11, 13], [10, 10]], [[14, 14], [12, 11]]]
DECOY_QUERIES = [(10, 10), (14, 14), (0, 0), (12, 12.5)]


COND_PATHS = [[[0, 0], [7, 1]], [[3, 6], [1, 2]], [[7, 7], [5, 4]], [[2, 7], [6, 0]]]


COND_DESC = ("Index(COND_PATHS, 8, True) - four paths - queried in nine places between "
             "remove_path(0..3) and then in all 64 cells: ")


class ConditioningFailed(Exception):
    """The fixed history on the unrelated index itself went wrong (it is a valid input too)."""


def condition():
    try:
        _condition()
    except ConditioningFailed:
        raise
    except Exception as exc:                # pylint: disable=broad-except
        raise ConditioningFailed(f"raised {type(exc).__name__}: {exc}") from exc


def _condition():
    """Heavy use of an *earlier, unrelated* index, made identically before every index under
    test (exploration and replay alike): queries in every cell, all paths removed one by one,
    queries on the emptied grid.  Whatever a class remembers outside the instance (a memo of
    empty neighbourhoods, a shared cell list) is then in its worst state, deterministically."""
    spatial_grid = _lib()
    core.rejected(spatial_grid.Index, [[[0, 0]]], 3, True)                     # a path without an end
    cond = spatial_grid.Index([[list(a), list(b)] for a, b in COND_PATHS], 8, True)
    spots = [(col + 0.5, row + 0.5) for col in (-1, 3, 8) for row in (-1, 4, 8)]
    for victim in range(len(COND_PATHS)):
        for spot in spots:
            cond.nearest(list(spot))
        cond.remove_path(victim)
    for col in range(8):
        for row in range(8):
            if cond.nearest([col * 0.875 + 0.4, row * 0.875 + 0.4]) is not None:
                raise ConditioningFailed("nearest() found an end after every path was removed")


def _decoy_view(decoy):
    return ([list(c) for c in decoy.grid], list(decoy.lookup),
            [decoy.nearest(list(q)) for q in DECOY_QUERIES])


def explore_index(paths, bins, reverse, queries, part):
    """All removal orders of one index; every state queried.  Returns nothing (fills part)."""
    spatial_grid = _lib()
    n_paths = len(paths)
    desc = f"Index({[list(map(list, p)) for p in paths]}, {bins}, {reverse})"
    seen = {}
    orders = list(itertools.permutations(range(n_paths)))
    for order in orders:
        try:
            condition()
        except ConditioningFailed as exc:
            # a verdict of its own; the exploration goes on and usually finds a smaller case
            part.violation("conditioning", COND_DESC + str(exc), {"kind": "conditioning"})
        try:
            decoy = spatial_grid.Index([[list(a), list(b)] for a, b in DECOY_PATHS], 3, True)
            decoy_before = _decoy_view(decoy)
            index = spatial_grid.Index([[list(p[0]), list(p[1])] for p in paths], bins, reverse)
        except Exception as exc:            # pylint: disable=broad-except
            part.violation(f"build:{paths}:{bins}:{reverse}", f"{desc} raised {exc!r}",
                           _case(paths, bins, reverse, [], None))
            return
        end_cells = [(ident, pt, cell_of(index, pt)) for ident, pt in ends_of(paths, reverse)]
        removed = set()
        for depth in range(n_paths + 1):
            key = frozenset(removed)
            fields = ([list(c) for c in index.grid], list(index.lookup))
            if key in seen:
                part.count("state_merges_compared")
                if seen[key] != fields:
                    part.violation(f"order:{paths}:{bins}:{reverse}:{sorted(removed)}",
                                   f"{desc}: removing {sorted(removed)} in order {order[:depth]} "
                                   f"leaves grid/lookup {fields}, another order left {seen[key]}",
                                   _case(paths, bins, reverse, list(order[:depth]), None))
            else:
                seen[key] = fields
                part.count("states")
                for query in queries:
                    bad = check_query(index, paths, reverse, removed, query, end_cells)
                    part.count("queries")
                    if bad:
                        part.violation(f"{bad[0]}:{paths}:{bins}:{reverse}:{sorted(removed)}:{query}",
                                       f"{desc} after removing {list(order[:depth])}: {bad[1]}",
                                       _case(paths, bins, reverse, list(order[:depth]), query))
            if depth < n_paths:
                victim = order[depth]
                try:
                    index.remove_path(victim)
                except Exception as exc:    # pylint: disable=broad-except
                    part.violation(f"remove:{paths}:{bins}:{reverse}:{order[:depth + 1]}",
                                   f"{desc}: remove_path({victim}) after {list(order[:depth])} "
                                   f"raised {type(exc).__name__}: {exc}",
                                   _case(paths, bins, reverse, list(order[:depth + 1]), None))
                    break
                removed.add(victim)
                part.count("transitions")
        try:
            decoy_after = _decoy_view(decoy)
        except Exception as exc:            # pylint: disable=broad-except
            decoy_after = repr(exc)
        if decoy_after != decoy_before:
            part.violation(f"isolation:{paths}:{bins}:{reverse}",
                           f"{desc} with removals {list(order)}: an unrelated index built earlier "
                           f"changed from {decoy_before} to {decoy_after}",
                           _case(paths, bins, reverse, list(order), None))
    part.count("indexes")
    if n_paths > 1 or reverse:
        part.count("nontrivial")


def _case(paths, bins, reverse, removals, query):
    return {"kind": "grid", "paths": [[list(p[0]), list(p[1])] for p in paths], "bins": bins,
            "reverse": reverse, "removals": removals, "query": list(query) if query else None}


def border_queries(paths, bins, reverse):
    """Query points exactly on the computed cell borders (and just beside them)."""
    spatial_grid = _lib()
    index = spatial_grid.Index([[list(p[0]), list(p[1])] for p in paths], bins, reverse)
    xs = [index.xmin + k * index.bin_size_x for k in range(bins + 1)]
    ys = [index.ymin + k * index.bin_size_y for k in range(bins + 1)]
    return [(x, y) for x in xs for y in ys]


def _scaled(paths, queries, scale):
    """The same geometry in other units (a power of two keeps every coordinate exact): a
    length compared with a squared length, or an absolute threshold, shows at some scales only."""
    if scale == 1:
        return paths, queries
    d_x, d_y = 0, 0
    if isinstance(scale, tuple):            # (factor, shift in x, shift in y)
        scale, d_x, d_y = scale
    move = lambda pt: (pt[0] * scale + d_x, pt[1] * scale + d_y)     # noqa: E731
    return (tuple((move(a), move(b)) for a, b in paths), [move(q) for q in queries])


def _chunk(args):
    items, bins_list, queries, with_borders = args[:4]
    scale = args[4] if len(args) > 4 else 1
    part = core.Part()
    if scale != 1 and not isinstance(scale, tuple):
        # extra query points at sub-cell offsets (clearances well below one unit)
        queries = queries + [(x + 0.3, y + 0.45) for x in (0, 1) for y in (0, 1)]
    for paths in items:
        paths, queries_s = _scaled(paths, queries, scale)
        queries_saved, queries = queries, queries_s
        for reverse in (False, True):
            if not has_extent(paths, reverse):
                part.count("skipped_zero_extent")
                continue
            for bins in bins_list:
                qry = queries
                if with_borders:
                    qry = queries + border_queries(paths, bins, reverse)
                explore_index(paths, bins, reverse, qry, part)
        queries = queries_saved
    if items:
        part.sample({"paths": [[list(p[0]), list(p[1])] for p in items[len(items) // 2]],
                     "bins_per_side": bins_list, "reverse": [False, True],
                     "queries": len(queries)}, limit=1)
    return part


def big_layouts(ctx):
    """Dozens to hundreds of paths on non-square extents (size thresholds, counters, cell
    arithmetic for two-digit cell numbers); deterministic modular layouts, no sampling."""
    out = []
    out.append(tuple(((i % 10, i // 10), ((i * 7) % 10, (i * 3) % 6)) for i in range(60)))
    out.append(tuple((((i * 37) % 25 / 2, (i * 11) % 14 / 2), ((i * 13) % 25 / 2, (i * 29) % 14 / 2))
                     for i in range(150)))
    out.append(tuple(((0.5 * i, 0.0), (0.5 * i, 3.0 + (i % 3))) for i in range(41)))     # comb
    if ctx.thorough:
        out.append(tuple((((i * 53) % 101 / 4, (i * 17) % 40 / 4), ((i * 71) % 101 / 4, (i * 3) % 40 / 4))
                         for i in range(400)))
    return out


def _big_job(args):
    """One index, one removal order, a few queries after every removal."""
    paths, bins, reverse, order_kind = args[:4]
    near_ends = len(args) > 4 and args[4]
    spatial_grid = _lib()
    part = core.Part()
    n_paths = len(paths)
    order = {"up": list(range(n_paths)), "down": list(range(n_paths - 1, -1, -1)),
             "stride": [(i * 7) % n_paths for i in range(n_paths)] if n_paths % 7 else
             [(i * 11) % n_paths for i in range(n_paths)]}[order_kind]
    desc = f"Index(<{n_paths} paths>, {bins}, {reverse})"
    try:
        condition()
    except ConditioningFailed as exc:
        part.violation("conditioning", COND_DESC + str(exc), {"kind": "conditioning"})
        return part
    spatial_grid.Index([[list(a), list(b)] for a, b in DECOY_PATHS], 3, True)
    try:
        index = spatial_grid.Index([[list(p[0]), list(p[1])] for p in paths], bins, reverse)
        end_cells = [(ident, pt, cell_of(index, pt)) for ident, pt in ends_of(paths, reverse)]
    except Exception as exc:                # pylint: disable=broad-except
        part.violation(f"build:big:{n_paths}:{bins}:{reverse}",
                       f"{desc} could not be built: {type(exc).__name__}: {exc}",
                       _case(paths, bins, reverse, [], None))
        return part
    xs = [p[0][0] for p in paths] + [p[1][0] for p in paths]
    ys = [p[0][1] for p in paths] + [p[1][1] for p in paths]
    queries = [(min(xs), min(ys)), (max(xs), max(ys)), ((min(xs) + max(xs)) / 2, (min(ys) + max(ys)) / 2),
               (min(xs) - 1, max(ys) + 1), (max(xs) / 3, max(ys) / 1.5), (max(xs) + 5, min(ys))]
    if near_ends:
        queries += [(pt[0] + 0.5, pt[1]) for _ident, pt in ends_of(paths, reverse)][:48]
    removed = set()
    for depth in range(n_paths + 1):
        for query in queries:
            bad = check_query(index, paths, reverse, removed, query, end_cells)
            part.count("queries")
            if bad:
                part.violation(f"{bad[0]}:big:{n_paths}:{bins}:{reverse}:{order_kind}:{depth}:{query}",
                               f"{desc} after removing {depth} paths ({order_kind}): {bad[1]}",
                               _case(paths, bins, reverse, order[:depth], query))
        part.count("states")
        if depth < n_paths:
            try:
                index.remove_path(order[depth])
            except Exception as exc:        # pylint: disable=broad-except
                part.violation(f"remove:big:{n_paths}:{bins}:{reverse}:{order_kind}:{depth}",
                               f"{desc}: remove_path({order[depth]}) raised {exc!r}",
                               _case(paths, bins, reverse, order[:depth + 1], None))
                break
            removed.add(order[depth])
            part.count("transitions")
    part.count("indexes")
    part.count("big_histories")
    part.count("nontrivial")
    return part


def wall_sets():
    """Grids with whole-number cell widths c = 6..150 (margin exactly 3, four columns): queries
    lying bit-exactly on the interior walls x = c, 2c, 3c, a nearer end one column to the right
    and a farther one two columns to the left.  Filing an end and locating a query must use the
    same arithmetic; x / c and x * (1 / c) differ by one unit in the last place for some c."""
    out = []
    for cell in range(6, 151):
        width = 4 * cell - 6
        height = 600 - width                # margin (width + height) / 200 = 3 exactly
        y_mid = 3 + height / 2
        paths = (((3, 3), (4, 4)), ((3 + width, 3 + height), (5, 5)),
                 ((4, y_mid), (6, 6)), ((3 * cell + 1, y_mid), (7, 7)),
                 ((cell + 2, y_mid + 1), (8, 8)))
        queries = [(float(k * cell), y_mid) for k in (1, 2, 3)] + \
                  [(float(2 * cell), y_mid + 1), (2 * cell, y_mid)]
        out.append((paths, queries))
    return out


def _wall_chunk(items):
    part = core.Part()
    for paths, queries in items:
        explore_wall(paths, queries, part)
    return part


def explore_wall(paths, queries, part):
    """One index (4 bins, no reversal), queried in the full state and after each single
    removal - not all 120 removal orders."""
    spatial_grid = _lib()
    desc = f"Index({[list(map(list, p)) for p in paths]}, 4, False)"
    for victim in [None] + list(range(len(paths))):
        try:
            condition()
            index = spatial_grid.Index([[list(p[0]), list(p[1])] for p in paths], 4, False)
            removed = set()
            if victim is not None:
                index.remove_path(victim)
                removed.add(victim)
        except Exception as exc:            # pylint: disable=broad-except
            part.violation(f"wall_build:{paths[1]}", f"{desc} raised {exc!r}",
                           _case(paths, 4, False, [] if victim is None else [victim], None))
            return
        end_cells = [(ident, pt, cell_of(index, pt)) for ident, pt in ends_of(paths, False)]
        for query in queries:
            bad = check_query(index, paths, False, removed, query, end_cells)
            part.count("queries")
            part.count("wall_queries")
            if bad:
                part.violation(f"{bad[0]}:wall:{paths[1]}:{victim}:{query}",
                               f"{desc} after removing {sorted(removed)}: {bad[1]}",
                               _case(paths, 4, False, sorted(removed), query))
        part.count("states")
    part.count("indexes")
    part.count("nontrivial")


def fine_sets():
    """Sub-unit geometry around a cell wall: a frame path fixes the extent to the unit square
    (walls at 1/2 for 2 and 4 bins); a second path has both ends on a fine lattice straddling
    the wall; queries on a finer lattice around it.  Distances and wall clearances are all well
    below 1, where a squared length and a length order differently."""
    frame = ((0.0, 0.0), (1.0, 1.0))
    fine = [(0.40625 + 3 * i / 64, 0.40625 + 3 * j / 64) for i in range(5) for j in range(5)]
    return [(frame, (a, b)) for a in fine for b in fine]


FINE_QUERIES = [(0.40625 + i / 64, 0.40625 + j / 64) for i in range(0, 13, 1) for j in range(0, 13, 2)]


def run(ctx):
    all_paths = [(a, b) for a in LATTICE for b in LATTICE]          # 81 (start, end) pairs
    queries = [(x, y) for x in QUERY_COORDS for y in QUERY_COORDS]
    jobs = []
    ones = [(p,) for p in all_paths]
    jobs += [(chunk, [1, 2, 3, 4, 5], queries, True) for chunk in core.split(ones, 8)]
    for scale in (0.125, 16, 2.0 ** 200, 2.0 ** -200):
        jobs += [(chunk, [1, 2, 3, 4], queries, False, scale) for chunk in core.split(ones, 8)]
    # the same drawings 2^50 units from the origin along one axis (coordinates stay exact; the
    # margin an index adds around its extent is far below one unit in the last place there)
    for shift in ((1, float(1 << 50), 0.0), (1, 0.0, -float(1 << 50))):
        jobs += [(chunk, [1, 2, 3, 4], queries, False, shift) for chunk in core.split(ones, 8)]
    jobs += [(chunk, [2, 4], FINE_QUERIES, False) for chunk in core.split(fine_sets(), 48)]
    # decimal coordinates (tenths: no short binary expansion, so every subtraction of the grid
    # origin rounds) with queries half-way between the two ends of a path: near-ties whose order
    # only the distance between the *given* coordinates gets right
    marks = (1, 7, 12, 23, 29)
    tenths = [(((a / 10, c / 10), (b / 10, d / 10)),) for a in marks for b in marks
              for c in (0, 7, 11) for d in (0, 7, 11)]
    tenth_q = [(m / 10, n / 10) for m in range(0, 31) for n in (0, 5, 7, 11)]
    jobs += [(chunk, [1, 2], tenth_q, False) for chunk in core.split(tenths, 32)]
    twos = [(p, q) for p in all_paths for q in all_paths]
    few_q = [(x, y) for x in (-1, 0, 0.5, 1, 1.5, 2, 3) for y in (-1, 0, 0.5, 1, 1.5, 2, 3)]
    jobs += [(chunk, [1, 2, 3, 4], few_q if not ctx.thorough else queries, False)
             for chunk in core.split(twos, 96)]
    # seed-derived extra geometry: an off-lattice path joined to every lattice path
    rnd = core.seeded_ints(ctx.seed, "c13.pt", 4, 6, signed=False)
    odd = ((rnd[0] % 9) / 4.0, (rnd[1] % 9) / 4.0), ((rnd[2] % 9) / 4.0, (rnd[3] % 9) / 4.0)
    jobs += [(chunk, [2, 3], few_q, True) for chunk in
             core.split([(odd, p) for p in all_paths], 8)]
    threes = []
    if ctx.thorough:
        tri = [(a, b) for a in LATTICE for b in CORNERS]
        threes = [(p, q, r) for p in tri for q in tri for r in tri]
        coarse = [(x, y) for x in (-1, 0.5, 1, 2, 3) for y in (-1, 0.5, 1, 2, 3)]
        jobs += [(chunk, [2, 3, 4], coarse, False) for chunk in core.split(threes, 192)]
    else:
        tri = [(a, b) for a in CORNERS + [(1, 1)] for b in [(0, 0), (2, 2)]]
        threes = [(p, q, r) for p in tri for q in tri for r in tri]
        coarse = [(x, y) for x in (-1, 0.5, 1, 3) for y in (-1, 0.5, 1, 3)]
        jobs += [(chunk, [2, 3], coarse, False) for chunk in core.split(threes, 16)]
    part = core.fan_out(ctx, _chunk, jobs)
    part.merge(core.fan_out(ctx, _wall_chunk, core.split(wall_sets(), 16)))
    big_jobs = [(paths, bins, reverse, kind) for paths in big_layouts(ctx)
                for bins in (1, 2, 3, 6, 10, 13) for reverse in (False, True)
                for kind in ("up", "down", "stride")]
    # paths so short that their squared length underflows to zero although their ends differ
    # (2^-538 units long; squared distances of 2^-531-unit queries are subnormal but distinct):
    # "start equals end" decided by a squared distance is wrong for them
    unit = 2.0 ** -535
    for short in ((((0.0, 0.0), (unit / 8, 0.0)), ((64 * unit, 64 * unit), (80 * unit, 64 * unit))),
                  (((64 * unit, 64 * unit), (80 * unit, 64 * unit)), ((5 * unit, 5 * unit), (5 * unit, 5 * unit + unit / 8))),
                  (((0.0, 0.0), (0.0, unit / 16)),)):
        base = short[0][0] if short[0][0][0] < 32 * unit else short[1][0]
        queries = [(base[0] + 16 * unit, base[1]), (base[0], base[1] + 16 * unit),
                   (base[0] - 16 * unit, base[1] - 16 * unit), (base[0] + unit / 16, base[1]),
                   (72 * unit, 64 * unit)]
        for bins in (1, 2, 3):
            for reverse in (False, True):
                explore_index(short, bins, reverse, queries, part)
                part.count("underflow_path_indexes")
    # very fine grids (hundreds of cells per side: a plot of thousands of short strokes) on a
    # wide flat document and on a square one - cell numbers of five and six digits, any cap or
    # table sized for "reasonable" grids; queried next to every end
    banner = tuple(((100.0 * i, 5.0 + (i % 2)), (100.0 * i + 30, 2.0 + (i % 3) * 3)) for i in range(11))
    square = tuple((((i * 37) % 100 * 1.0, (i * 11) % 100 * 1.0), ((i * 13) % 100 * 1.0, (i * 29) % 100 * 1.0))
                   for i in range(12))
    harvested = set()
    for const in core.harvest_ints(_lib(), low=8, high=450):
        harvested |= {const - 1, const, const + 1, const + 4}
    for layout in (banner, square):
        for bins in sorted(set((100, 256, 257, 320, 324, 400) + ((640,) if ctx.thorough else ()))
                           | harvested):
            for reverse in (False, True):
                big_jobs.append((layout, bins, reverse, "stride", True))
    part.merge(core.fan_out(ctx, _big_job, big_jobs))
    from .. import callforms              # pylint: disable=import-outside-toplevel
    part.merge(callforms.explore("C13"))
    cnt = part.counters
    coverage = {
        "states": cnt.get("states", 0),
        "transitions": cnt.get("transitions", 0),
        "traces_validated_against_impl": cnt.get("queries", 0),
        "evaluations": cnt.get("queries", 0),
        "distinct_nontrivial": cnt.get("nontrivial", 0),
        "rule": "every path set with 1 and 2 (start, end) pairs over the 3x3 lattice (81, 6561), "
                "3-path sets over a sub-lattice, plus a seed-derived off-lattice path, x bins per "
                "side x reverse in {False, True}; per index every removal order; in every "
                "distinct removed-set state nearest() for the query lattice (inside, on and "
                "outside the grid, cell borders); states reached by different orders compared "
                "field by field; the one-path sets again scaled by 1/8, 16, 2^200 and 2^-200 and shifted by 2^50 along either axis; 625 two-path sets "
                "with ends on a 3/64 lattice straddling a cell wall queried on a 1/64 lattice; 145 grids "
                "with whole-number cell widths 6..150 queried exactly on their interior walls; "
                "3 (4) layouts of 41..150 (400) paths x bins {3,6,10,13} x reverse x "
                "three removal orders queried after every removal; non-trivial = indexes with "
                "more than one candidate end",
        "samples": core.rotate(part.samples, ctx.seed, 4),
        "indexes": cnt.get("indexes", 0),
        "big_histories": cnt.get("big_histories", 0),
        "nearest_queries": cnt.get("queries", 0),
        "state_merges_compared": cnt.get("state_merges_compared", 0),
        "skipped_zero_extent": cnt.get("skipped_zero_extent", 0),
        "exhaustive": True,
    }
    assumptions = ["path sets with zero extent are excluded (precondition of the statement)",
                   "ties in distance are accepted (distance comparison, not identity)",
                   "the cell of a point is computed from the index's public xmin/ymin/bin_size_*"]
    coverage["rule"] += ("; 225 one-path sets on decimal (tenths) coordinates x 124 queries x bins 1, 2; 'at least as close' judged with a relative allowance of 2^-46 on squared distances")
    coverage["rule"] += ('; the large layouts also with 1 and 2 bins per side')
    return {"part": part, "coverage": coverage, "assumptions": assumptions}


def replay(case):
    if case.get("kind") == "callform":
        from .. import callforms          # pylint: disable=import-outside-toplevel
        return callforms.replay(case)
    spatial_grid = _lib()
    if case.get("kind") == "conditioning":
        try:
            condition()
        except ConditioningFailed as exc:
            return [COND_DESC + str(exc)]
        return []
    paths = tuple((tuple(p[0]), tuple(p[1])) for p in case["paths"])
    part = core.Part()
    if case["query"] is None and len(paths) <= 5:
        explore_index(paths, case["bins"], case["reverse"], [], part)
        return [v["msg"] for v in part.violations]
    if case["query"] is None:
        # a large index: the recorded removal sequence itself (all orders of 150 paths cannot be
        # enumerated) - construction and every remove_path() must go through
        try:
            condition()
        except ConditioningFailed as exc:
            return [COND_DESC + str(exc)]
        desc = f"Index(<{len(paths)} paths>, {case['bins']}, {case['reverse']})"
        try:
            index = spatial_grid.Index([[list(p[0]), list(p[1])] for p in paths], case["bins"],
                                       case["reverse"])
        except Exception as exc:            # pylint: disable=broad-except
            return [f"{desc} could not be built: {type(exc).__name__}: {exc}"]
        done = []
        for victim in case["removals"]:
            try:
                index.remove_path(victim)
            except Exception as exc:        # pylint: disable=broad-except
                return [f"{desc}: remove_path({victim}) after {len(done)} removals raised "
                        f"{type(exc).__name__}: {exc}"]
            done.append(victim)
        return []
    try:
        condition()                                                             # as in exploration
    except ConditioningFailed as exc:
        return [COND_DESC + str(exc)]
    _decoy_view(spatial_grid.Index([[list(a), list(b)] for a, b in DECOY_PATHS], 3, True))
    index = spatial_grid.Index([[list(p[0]), list(p[1])] for p in paths], case["bins"],
                               case["reverse"])
    end_cells = [(i, pt, cell_of(index, pt)) for i, pt in ends_of(paths, case["reverse"])]
    removed = set()
    for victim in case["removals"]:
        index.remove_path(victim)
        removed.add(victim)
    bad = check_query(index, paths, case["reverse"], removed, tuple(case["query"]), end_cells)
    return [bad[1]] if bad else []
