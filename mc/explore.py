"""E1 - deviation-bounded stateless explorer over environment choice points.

The code under test runs against an environment (fake serial port, stubbed enumerator)
that asks a `Chooser` for every answer it gives.  Option 0 is the default (conforming,
prompt, fault-free) answer; every other option is one *deviation*.  `explore()` walks the
complete tree of executions that contain at most `bound` deviations: it runs a prefix of
recorded choices, answers 0 afterwards, and then branches on every later point and every
alternative.  Executions always run to completion.

Replaying a prefix must reproduce the same labels with the same arity; anything else means
the harness does not own all the nondeterminism and is a hard error, never a verdict.
"""


class HarnessDivergence(Exception):
    """Replay of a recorded prefix did not meet the same choice points."""


class Chooser:
    """Hands out environment answers; records (label, arity, choice)."""

    def __init__(self, prefix=()):
        self.prefix = list(prefix)
        self.trace = []

    def choose(self, label, arity):
        idx = len(self.trace)
        if idx < len(self.prefix):
            want_label, choice = self.prefix[idx]
            if want_label != label or not 0 <= choice < arity:
                raise HarnessDivergence(
                    f"point {idx}: recorded ({want_label},{choice}) but met ({label}, arity {arity})")
        else:
            choice = 0
        self.trace.append((label, arity, choice))
        return choice

    def vector(self):
        """The complete choice vector of this execution, trailing defaults trimmed."""
        vec = [(lab, c) for lab, _n, c in self.trace]
        while vec and vec[-1][1] == 0:
            vec.pop()
        return vec

    def deviations(self):
        return sum(1 for _l, _n, c in self.trace if c)


class Stats:
    """Counters of one exploration."""

    def __init__(self):
        self.executions = 0
        self.points = 0
        self.max_depth = 0
        self.by_deviations = {}
        self.outcomes = set()

    def merge(self, other):
        self.executions += other.executions
        self.points += other.points
        self.max_depth = max(self.max_depth, other.max_depth)
        for k, v in other.by_deviations.items():
            self.by_deviations[k] = self.by_deviations.get(k, 0) + v
        self.outcomes |= other.outcomes

    def as_dict(self):
        return {"executions": self.executions, "choice_points": self.points,
                "max_choice_depth": self.max_depth,
                "executions_by_deviation_count": {str(k): v for k, v in
                                                  sorted(self.by_deviations.items())},
                "distinct_outcomes": len(self.outcomes)}


def explore(run, bound, stats=None, may_branch=None):
    """Enumerate every execution of `run(chooser)` with at most `bound` deviations.

    `run` builds a fresh system, drives it with the chooser, checks it, and returns a
    hashable outcome digest (used only to count distinct outcomes).  Yields nothing;
    `run` reports violations itself.  `may_branch(label)` can veto alternatives at a point
    (used to confine deviations to one operation of a history).
    Returns the Stats object.
    """
    stats = stats or Stats()
    stack = [[]]
    while stack:
        prefix = stack.pop()
        chooser = Chooser(prefix)
        outcome = run(chooser)
        trace = chooser.trace
        if len(trace) < len(prefix):
            raise HarnessDivergence(f"execution ended after {len(trace)} points, "
                                    f"prefix has {len(prefix)}")
        stats.executions += 1
        stats.points += len(trace)
        stats.max_depth = max(stats.max_depth, len(trace))
        devs = chooser.deviations()
        stats.by_deviations[devs] = stats.by_deviations.get(devs, 0) + 1
        stats.outcomes.add(outcome)
        if devs >= bound:
            continue
        base = [(lab, c) for lab, _n, c in trace]
        for i in range(len(trace) - 1, len(prefix) - 1, -1):
            label, arity, _c = trace[i]
            if may_branch is not None and not may_branch(label):
                continue
            for alt in range(arity - 1, 0, -1):
                stack.append(base[:i] + [(label, alt)])
    return stats


def run_vector(run, vector):
    """Execute exactly one recorded choice vector (replay without the explorer)."""
    chooser = Chooser(vector)
    outcome = run(chooser)
    if len(chooser.trace) < len(vector):
        raise HarnessDivergence("replay ended before the recorded vector was consumed")
    return outcome, chooser
