"""Exact rational geometry used as reference models (Fractions only, no floats)."""
from fractions import Fraction as F


def frac(value):
    """Exact rational value of an int / float / Fraction."""
    return value if isinstance(value, F) else F(value)


def liang_barsky(seg, rect):
    """Exact part of a segment inside a closed rectangle.

    seg = ((x1,y1),(x2,y2)), rect = ((xmin,ymin),(xmax,ymax)), all rationals.
    Returns (t0, t1) with 0 <= t0 <= t1 <= 1, or None if no point of the segment is inside.
    """
    (x_1, y_1), (x_2, y_2) = seg
    (xmin, ymin), (xmax, ymax) = rect
    d_x, d_y = x_2 - x_1, y_2 - y_1
    t_0, t_1 = F(0), F(1)
    for p, q in ((-d_x, x_1 - xmin), (d_x, xmax - x_1), (-d_y, y_1 - ymin), (d_y, ymax - y_1)):
        if p == 0:
            if q < 0:
                return None
            continue
        ratio = F(q) / F(p)
        if p < 0:
            if ratio > t_1:
                return None
            t_0 = max(t_0, ratio)
        else:
            if ratio < t_0:
                return None
            t_1 = min(t_1, ratio)
    if t_0 > t_1:
        return None
    return t_0, t_1


def point_at(seg, par):
    (x_1, y_1), (x_2, y_2) = seg
    return (x_1 + par * (x_2 - x_1), y_1 + par * (y_2 - y_1))


def sq_dist_point_segment(point, seg_a, seg_b):
    """Exact squared distance from a point to the closed segment a-b."""
    p_x, p_y = point
    a_x, a_y = seg_a
    b_x, b_y = seg_b
    d_x, d_y = b_x - a_x, b_y - a_y
    len2 = d_x * d_x + d_y * d_y
    if len2 == 0:
        return (p_x - a_x) ** 2 + (p_y - a_y) ** 2
    par = F((p_x - a_x) * d_x + (p_y - a_y) * d_y) / F(len2)
    par = max(F(0), min(F(1), par))
    c_x, c_y = a_x + par * d_x, a_y + par * d_y
    return (p_x - c_x) ** 2 + (p_y - c_y) ** 2


def sq_dist(p, q):
    return (p[0] - q[0]) ** 2 + (p[1] - q[1]) ** 2


def de_casteljau_half(bez):
    """Exact halves of a cubic Bezier ((x,y) x 4)."""
    p_0, p_1, p_2, p_3 = bez

    def mid(a, b):
        return ((a[0] + b[0]) / 2, (a[1] + b[1]) / 2)
    m_01, m_12, m_23 = mid(p_0, p_1), mid(p_1, p_2), mid(p_2, p_3)
    m_012, m_123 = mid(m_01, m_12), mid(m_12, m_23)
    centre = mid(m_012, m_123)
    return (p_0, m_01, m_012, centre), (centre, m_123, m_23, p_3)


def to_frac_point(point):
    return (frac(point[0]), frac(point[1]))
