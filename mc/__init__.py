"""Bounded exhaustive exploration machinery for evil-mad/plotink (see /verif/DESIGN.md)."""
import os
import sys

VERIF_ROOT = os.path.dirname(os.path.dirname(os.path.abspath(__file__)))


def repo_path():
    """Directory whose working tree is explored (default /repo; PLOTINK_REPO for mutants)."""
    return os.environ.get("PLOTINK_REPO", "/repo")


def bind_repo():
    """Make `import plotink` resolve to the working tree under test, whatever is installed."""
    path = repo_path()
    if not os.path.isdir(os.path.join(path, "plotink")):
        raise SystemExit(f"HARNESS-ERROR: no plotink package under {path}")
    if sys.path[0:1] != [path]:
        sys.path.insert(0, path)
    for name in list(sys.modules):
        if name == "plotink" or name.startswith("plotink."):
            mod = sys.modules[name]
            origin = getattr(mod, "__file__", "") or ""
            if not origin.startswith(path + os.sep):
                del sys.modules[name]
    import plotink  # noqa: F401  pylint: disable=import-outside-toplevel
    origin = os.path.dirname(os.path.abspath(plotink.__file__))
    if origin != os.path.join(os.path.abspath(path), "plotink"):
        raise SystemExit(f"HARNESS-ERROR: plotink imported from {origin}, expected {path}")
    return path
