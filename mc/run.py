"""CLI:  ./check CNN [--tier quick|thorough] [--seed N] [--jobs N] [--replay FILE]

exit 0  the property held on everything explored (known findings are printed, not failed)
exit 1  VIOLATION property=CNN replay=<path>   (one line per distinct violation key)
exit 2  harness error (divergence, non-reproducible failure, import failure) - no verdict
"""
import argparse
import importlib
import json
import os
import sys
import time
import traceback

from . import VERIF_ROOT, bind_repo, core, evidence, findings
from .explore import HarnessDivergence

REPLAY_DIR = os.environ.get("VERIF_REPLAY_DIR") or os.path.join(VERIF_ROOT, "replays")
MAX_REPORTED = 8


def _env_int(name, default):
    try:
        return int(os.environ.get(name, "") or default)
    except ValueError:
        return default


def main(argv=None):
    parser = argparse.ArgumentParser(prog="check")
    parser.add_argument("prop")
    parser.add_argument("--tier", default=os.environ.get("VERIF_TIER") or "quick",
                        choices=["quick", "thorough"])
    parser.add_argument("--seed", type=int, default=_env_int("VERIF_SEED", 0))
    parser.add_argument("--jobs", type=int, default=core.jobs_default())
    parser.add_argument("--replay")
    parser.add_argument("--no-evidence", action="store_true")
    parser.add_argument("--json", action="store_true", help=argparse.SUPPRESS)
    parser.add_argument("--sequential-json", action="store_true", help=argparse.SUPPRESS)
    args = parser.parse_args(argv)
    prop = args.prop.upper()

    repo = bind_repo()
    try:
        module = importlib.import_module(f"mc.props.{prop.lower()}")
    except ImportError:
        traceback.print_exc()
        print(f"HARNESS-ERROR: cannot load the check for {prop}")
        return 2

    if args.replay:
        return _replay(module, prop, args.replay, args.json)

    if args.sequential_json:
        return _sequential(module, prop, args.tier, args.seed)
    ctx = core.Ctx(args.tier, args.seed, args.jobs)
    # listed known findings never trigger the fail-fast stop (they are expected on this tree)
    core.KNOWN_KEYS.update(key for (pid, key) in findings.load() if pid == prop)
    t_0 = time.time()
    try:
        result = module.run(ctx)
    except HarnessDivergence as exc:
        print(f"HARNESS-DIVERGENCE: {exc}")
        return 2
    except Exception:                                   # pylint: disable=broad-except
        traceback.print_exc()
        print(f"HARNESS-ERROR: the check for {prop} crashed")
        return 2
    part = result["part"]
    coverage = result["coverage"]

    known = findings.load()
    new, listed = [], []
    os.makedirs(REPLAY_DIR, exist_ok=True)
    # simplest counterexample first: fewest environment deviations / shortest case
    # ... and cases that carry their own history before cases that may depend on the order of
    # the exploration
    own = ("first", "pre", "history", "asked", "item", "ops", "script")
    part.violations.sort(key=lambda v: (0 if isinstance(v["case"], dict) and
                                        any(k in v["case"] for k in own) else 1,
                                        len(v["case"].get("vector", ())) if
                                        isinstance(v["case"], dict) else 0,
                                        len(json.dumps(v["case"], default=repr))))
    unconfirmed = 0
    flaky = []
    deferred = []
    timing_artefacts = []
    for viol in part.violations:
        if (prop, viol["key"]) not in known and len(new) >= MAX_REPORTED:
            unconfirmed += 1            # beyond what is reported: not re-executed
            continue
        # a violation is only believed after it reproduces twice from a fresh start
        try:
            again = [module.replay(viol["case"]) for _ in range(2)]
        except HarnessDivergence as exc:
            print(f"HARNESS-DIVERGENCE while confirming {viol['key']}: {exc}")
            return 2
        except Exception:                               # pylint: disable=broad-except
            traceback.print_exc()
            print(f"HARNESS-ERROR: replay of {viol['key']} crashed")
            return 2
        if not again[0] or again[0] != again[1]:
            # not reproduced in this process: set aside; the cheap in-process confirmation of
            # the remaining (possibly self-contained) counterexamples comes first
            if len(deferred) < 60:
                deferred.append((viol, again))
            continue
        if (prop, viol["key"]) in known:
            listed.append(viol)
        else:
            new.append(viol)

    t_confirm = time.time()
    for viol, again in deferred if not new else ():
        # The in-process replay disagrees with the exploration: either the harness does not
        # own some nondeterminism, or the code under test keeps state across calls/objects
        # (a mutated class attribute, a module-level buffer).  Decide by replaying the
        # recorded case in two *fresh* interpreters: identical non-empty results are a
        # deterministic, self-contained violation; anything else is a harness error.
        fresh = [_fresh_replay(prop, viol["case"]) for _ in range(2)]
        if viol["key"].startswith("loop") and fresh[0] == [] and fresh[1] == [] \
                and again[0] == [] and again[1] == []:
            # A wall-clock watchdog fired during the exploration, and the very same case returns
            # in time on four further executions (two here, two in fresh interpreters): the
            # machine was starved, the code terminates.  Not a violation, not a harness error.
            timing_artefacts.append(viol["key"])
            continue
        if not fresh[0] or fresh[0] != fresh[1]:
            flaky.append(f"violation {viol['key']} did not reproduce identically "
                         f"(in-process {again[0]!r} vs {again[1]!r}; fresh processes "
                         f"{fresh[0]!r} vs {fresh[1]!r}); msg was {viol['msg']!r}")
            if len(flaky) >= 24 or time.time() - t_confirm > 120:
                break
            continue
        viol["msg"] = fresh[0][0] + "  [state carried between calls: reproduced from a " \
                                    "fresh interpreter]"
        if (prop, viol["key"]) in known:
            listed.append(viol)
        elif len(new) < MAX_REPORTED:
            new.append(viol)
    if new and deferred:
        flaky = [f"violation {v['key']} was seen during the exploration but depends on what "
                 f"was called before it" for v, _a in deferred[:2]]

    for key in timing_artefacts[:3]:
        print(f"  note (not counted): the watchdog fired on {key[:120]} during the exploration; "
              f"the case returns in time when run again - a starved machine, not a hang")
    if flaky and not new:
        # No single case reproduces on its own.  If the code under test carries state from one
        # call to the next *with different arguments* (a cache keyed too weakly), a violation
        # belongs to the order of the exploration, not to one case - and the order of a
        # parallel exploration is not reproducible.  The whole exploration run sequentially
        # (one process, fixed order) is: two fresh interpreters must report the same non-empty
        # list of violations, otherwise the harness does not own the nondeterminism - no verdict.
        runs = [_fresh_sequential(prop, args.tier, args.seed) for _ in range(2)]
        runs = [[kv for kv in (run or []) if (prop, kv[0]) not in known] for run in runs]
        if runs[0] and runs[0] == runs[1]:
            for key, msg in runs[0][:MAX_REPORTED]:
                new.append({"key": key,
                            "msg": msg + "  [depends on earlier calls with other arguments: "
                                         "reproduced twice by the sequential exploration in a "
                                         "fresh interpreter]",
                            "case": {"kind": "sequential_run", "tier": args.tier,
                                     "seed": args.seed, "key": key}})
        else:
            for line in flaky[:3]:
                print("HARNESS-ERROR: " + line)
            return 2
    for line in flaky[:2]:
        print("  note (not counted): " + line[:300])
    for viol in listed:
        print(f"KNOWN-FINDING: property={prop} key={viol['key']} {known[(prop, viol['key'])]}")
    os.makedirs(REPLAY_DIR, exist_ok=True)
    for viol in new[:MAX_REPORTED]:
        path = os.path.join(REPLAY_DIR, f"{prop}-{core.digest(viol['key'])}.json")
        with open(path, "w", encoding="utf-8") as handle:
            json.dump({"property_id": prop, "key": viol["key"], "msg": viol["msg"],
                       "case": viol["case"], "repo": repo, "tier": args.tier,
                       "seed": args.seed}, handle, indent=1, default=repr)
            handle.write("\n")
        print(f"VIOLATION property={prop} replay={path}")
        print(f"  key: {viol['key']}\n  what: {viol['msg']}")
    if unconfirmed:
        print(f"  ... and {unconfirmed} further distinct violation keys (not re-executed)")

    wall = time.time() - t_0
    coverage.setdefault("exhaustive", True)
    coverage["violating_cases_total"] = part.violation_count
    coverage["known_findings_seen"] = sorted(v["key"] for v in listed)
    coverage["repo"] = repo
    if not args.no_evidence and "PLOTINK_REPO" not in os.environ:
        path = evidence.write(prop, args.tier, args.seed, coverage,
                              result.get("assumptions", []), wall, len(new))
        problem = evidence.validate(path)
        if problem:
            print(f"HARNESS-ERROR: evidence file does not validate: {problem}")
            return 2
    summary = {k: coverage[k] for k in ("states", "transitions", "evaluations",
                                        "distinct_nontrivial") if k in coverage}
    print(f"{prop} tier={args.tier} seed={args.seed} wall={wall:.1f}s {summary} "
          f"violations={len(new)} known={len(listed)}")
    return 1 if new else 0


def _fresh_replay(prop, case):
    """Replay one case in a new interpreter; returns the list of violation messages (or None)."""
    import subprocess                                   # pylint: disable=import-outside-toplevel
    import tempfile                                     # pylint: disable=import-outside-toplevel
    with tempfile.NamedTemporaryFile("w", suffix=".json", dir=REPLAY_DIR, delete=False) as handle:
        json.dump({"property_id": prop, "key": "confirm", "case": case}, handle, default=repr)
        path = handle.name
    try:
        proc = subprocess.run([sys.executable, "-B", "-m", "mc.run", prop, "--replay", path,
                               "--json"], cwd=VERIF_ROOT, capture_output=True, text=True,
                              timeout=600, check=False)
        for line in proc.stdout.splitlines():
            if line.startswith("REPLAY-JSON "):
                return json.loads(line[len("REPLAY-JSON "):])
        return None
    finally:
        os.remove(path)


def _sequential(module, prop, tier, seed):
    """Hidden mode: the whole exploration in this one process, in list order; prints the
    violations found (key, message) as one JSON line.  No confirmation, no evidence."""
    try:
        result = module.run(core.Ctx(tier, seed, 1))
    except Exception:                                   # pylint: disable=broad-except
        traceback.print_exc()
        print("SEQUENTIAL-JSON null")
        return 2
    found = [[v["key"], str(v["msg"])] for v in result["part"].violations]
    print("SEQUENTIAL-JSON " + json.dumps(found))
    return 1 if found else 0


def _fresh_sequential(prop, tier, seed):
    import subprocess                                   # pylint: disable=import-outside-toplevel
    try:
        proc = subprocess.run([sys.executable, "-B", "-m", "mc.run", prop, "--tier", tier,
                               "--seed", str(seed), "--sequential-json"], cwd=VERIF_ROOT,
                              capture_output=True, text=True, timeout=3600, check=False)
    except subprocess.TimeoutExpired:
        return None
    for line in proc.stdout.splitlines():
        if line.startswith("SEQUENTIAL-JSON "):
            return json.loads(line[len("SEQUENTIAL-JSON "):])
    return None


def _replay(module, prop, path, as_json=False):
    with open(path, encoding="utf-8") as handle:
        doc = json.load(handle)
    if isinstance(doc.get("case"), dict) and doc["case"].get("kind") == "sequential_run":
        case = doc["case"]
        found = _fresh_sequential(prop, case["tier"], case["seed"]) or []
        msgs = [m for k, m in found if k == case["key"]]
        if as_json:
            print("REPLAY-JSON " + json.dumps(msgs))
            return 1 if msgs else 0
        if msgs:
            print(f"VIOLATION property={prop} replay={path}")
            print("  what:", msgs[0])
            return 1
        print(f"{prop}: the sequential exploration no longer reports {case['key']} on this tree")
        return 0
    msgs = module.replay(doc["case"])
    if as_json:
        if not msgs:
            # state carried from one call to the next shows on the second identical call
            msgs = ["on the second identical call: " + str(m) for m in module.replay(doc["case"])]
        print("REPLAY-JSON " + json.dumps([str(m) for m in msgs]))
        return 1 if msgs else 0
    if msgs:
        print(f"VIOLATION property={prop} replay={path}")
        for msg in msgs[:5]:
            print("  what:", msg)
        return 1
    print(f"{prop}: replay of {doc.get('key')} passes on this tree")
    return 0


if __name__ == "__main__":
    sys.exit(main())
