"""CLI:  ./check CNN [--tier quick|thorough] [--seed N] [--jobs N] [--replay FILE]

exit 0  the property held on everything explored (known findings are printed, not failed)
exit 1  VIOLATION property=CNN replay=<path>   (one line per distinct violation key)
exit 2  harness error (divergence, non-reproducible failure, import failure) - no verdict
"""
import argparse
import importlib
import json
import os
import sys
import time
import traceback

from . import VERIF_ROOT, bind_repo, core, evidence, findings
from .explore import HarnessDivergence

REPLAY_DIR = os.path.join(VERIF_ROOT, "replays")
MAX_REPORTED = 8


def _env_int(name, default):
    try:
        return int(os.environ.get(name, "") or default)
    except ValueError:
        return default


def main(argv=None):
    parser = argparse.ArgumentParser(prog="check")
    parser.add_argument("prop")
    parser.add_argument("--tier", default=os.environ.get("VERIF_TIER") or "quick",
                        choices=["quick", "thorough"])
    parser.add_argument("--seed", type=int, default=_env_int("VERIF_SEED", 0))
    parser.add_argument("--jobs", type=int, default=core.jobs_default())
    parser.add_argument("--replay")
    parser.add_argument("--no-evidence", action="store_true")
    args = parser.parse_args(argv)
    prop = args.prop.upper()

    repo = bind_repo()
    try:
        module = importlib.import_module(f"mc.props.{prop.lower()}")
    except ImportError:
        traceback.print_exc()
        print(f"HARNESS-ERROR: cannot load the check for {prop}")
        return 2

    if args.replay:
        return _replay(module, prop, args.replay)

    ctx = core.Ctx(args.tier, args.seed, args.jobs)
    t_0 = time.time()
    try:
        result = module.run(ctx)
    except HarnessDivergence as exc:
        print(f"HARNESS-DIVERGENCE: {exc}")
        return 2
    except Exception:                                   # pylint: disable=broad-except
        traceback.print_exc()
        print(f"HARNESS-ERROR: the check for {prop} crashed")
        return 2
    part = result["part"]
    coverage = result["coverage"]

    known = findings.load()
    new, listed = [], []
    # simplest counterexample first: fewest environment deviations / shortest case
    part.violations.sort(key=lambda v: (len(v["case"].get("vector", ())) if
                                        isinstance(v["case"], dict) else 0,
                                        len(json.dumps(v["case"], default=repr))))
    for viol in part.violations:
        # a violation is only believed after it reproduces twice from a fresh start
        try:
            again = [module.replay(viol["case"]) for _ in range(2)]
        except HarnessDivergence as exc:
            print(f"HARNESS-DIVERGENCE while confirming {viol['key']}: {exc}")
            return 2
        except Exception:                               # pylint: disable=broad-except
            traceback.print_exc()
            print(f"HARNESS-ERROR: replay of {viol['key']} crashed")
            return 2
        if not again[0] or again[0] != again[1]:
            print(f"HARNESS-ERROR: violation {viol['key']} did not reproduce identically "
                  f"({again[0]!r} vs {again[1]!r}); msg was {viol['msg']!r}")
            return 2
        if (prop, viol["key"]) in known:
            listed.append(viol)
        else:
            new.append(viol)

    for viol in listed:
        print(f"KNOWN-FINDING: property={prop} key={viol['key']} {known[(prop, viol['key'])]}")
    os.makedirs(REPLAY_DIR, exist_ok=True)
    for viol in new[:MAX_REPORTED]:
        path = os.path.join(REPLAY_DIR, f"{prop}-{core.digest(viol['key'])}.json")
        with open(path, "w", encoding="utf-8") as handle:
            json.dump({"property_id": prop, "key": viol["key"], "msg": viol["msg"],
                       "case": viol["case"], "repo": repo, "tier": args.tier,
                       "seed": args.seed}, handle, indent=1, default=repr)
            handle.write("\n")
        print(f"VIOLATION property={prop} replay={path}")
        print(f"  key: {viol['key']}\n  what: {viol['msg']}")
    if len(new) > MAX_REPORTED:
        print(f"  ... and {len(new) - MAX_REPORTED} further distinct violation keys")

    wall = time.time() - t_0
    coverage.setdefault("exhaustive", True)
    coverage["violating_cases_total"] = part.violation_count
    coverage["known_findings_seen"] = sorted(v["key"] for v in listed)
    coverage["repo"] = repo
    if not args.no_evidence and "PLOTINK_REPO" not in os.environ:
        path = evidence.write(prop, args.tier, args.seed, coverage,
                              result.get("assumptions", []), wall, len(new))
        problem = evidence.validate(path)
        if problem:
            print(f"HARNESS-ERROR: evidence file does not validate: {problem}")
            return 2
    summary = {k: coverage[k] for k in ("states", "transitions", "evaluations",
                                        "distinct_nontrivial") if k in coverage}
    print(f"{prop} tier={args.tier} seed={args.seed} wall={wall:.1f}s {summary} "
          f"violations={len(new)} known={len(listed)}")
    return 1 if new else 0


def _replay(module, prop, path):
    with open(path, encoding="utf-8") as handle:
        doc = json.load(handle)
    msgs = module.replay(doc["case"])
    if msgs:
        print(f"VIOLATION property={prop} replay={path}")
        for msg in msgs[:5]:
            print("  what:", msg)
        return 1
    print(f"{prop}: replay of {doc.get('key')} passes on this tree")
    return 0


if __name__ == "__main__":
    sys.exit(main())
