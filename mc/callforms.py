"""Every public function of a property called positionally and with all arguments by name, on a
representative list of inputs: the two must come to the same thing (core.by_keyword).  Added
after seeded change C01p (a decorator that forwarded *args only); shared by the properties over
pure functions and the two spatial indexes."""
import itertools

from . import core


def _pu():
    from plotink import plot_utils          # pylint: disable=import-outside-toplevel
    return plot_utils


def _inplace(_got, args):
    return (_got, args[0])


def _cases(prop):
    # pylint: disable=too-many-locals,import-outside-toplevel
    pts = [(x, y) for x in (-1, 0, 2, 4) for y in (-1, 1, 3, 5)]
    if prop in ("C01", "C03"):
        from plotink import ebb_calc, ebb_motion
        moves = [(1000, 10, 5, 0), (-7, 0, 9, 2147483647), (490123456, 0, 20, 1073741823),
                 (3, 1, 300, "clear"), (-2, -3, 1, "clear")]
        out = [(ebb_calc.move_dist_lt, m, None) for m in moves]
        out += [(ebb_motion.moveDistLMA, m, None) for m in moves]
        out += [(ebb_motion.moveDistLM, m[:3], None) for m in moves]
        out += [(ebb_calc.calculate_lm, (3, 1000000, 10, 0), None),
                (ebb_calc.calculate_lm, (5, -400000000, 0, "clear"), None),
                (ebb_motion.moveTimeLM, (1000000, 3, 10), None),
                (ebb_motion.moveTimeLM, (-400000000, 5, 0), None)]
        return out
    if prop == "C08":
        rect = [[0, 0], [3, 3]]
        return [(_pu().clip_segment, ([list(a), list(b)], rect), None)
                for a, b in itertools.product(pts, pts)]
    if prop == "C09":
        lists = [[(0, 0), (1, 0), (2, 0), (3, 1), (4, 0)], [(0, 0), (1, 1), (2, 0)],
                 [(0, 0), (5, 0.1), (10, 0), (10, 5), (10, 10)], [(0, 0), (1, 0)], []]
        out = [(_pu().supersample, ([list(p) for p in lst], tol), _inplace)
               for lst in lists for tol in (0.5, 1.5, 0, -1)]
        out += [(_pu().points_in_tolerance, ([list(p) for p in lst], tol), None)
                for lst in lists[:3] for tol in (0.05, 0.5, 1.5)]
        out += [(_pu().max_dist_from_n_points, ([list(p) for p in lst],), None) for lst in lists[:3]]
        return out
    if prop == "C10":
        curves = [[[(0, 0), (0, 0), (0, 2)], [(2, 2), (2, 0), (2, 0)]],
                  [[(0, 0), (0, 0), (1, 2)], [(2, -2), (3, 0), (4, 1)], [(5, 2), (6, 0), (6, 0)]]]
        return [(_pu().subdivideCubicPath, ([[list(p) for p in n] for n in crv], flat), _inplace)
                for crv in curves for flat in (0.05, 0.3, 1.0)]
    if prop == "C11":
        return [(_pu().vb_scale, (vbx, par, wid, hgt), None)
                for vbx in ("0 0 100 50", "-5,0,1,1", None, "0 0 x 1")
                for par in (None, "none", "xMinYMax slice", "defer xMaxYMid")
                for wid, hgt in ((200, 200), (30, 20))] + \
            [(_pu().vb_scale, (vbx, par, wid, hgt), None)          # sizes that must give identity
             for vbx, wid, hgt in (("0 0 0 50", 10, 10), ("0 0 100 -5", 10, 10), ("0 0 10 10", 0, 5),
                                   ("0 0 10 10", 5, -1), ("1 2 3", 10, 10), ("0 0 -4 -4", -8, -8))
             for par in (None, "none", "xMidYMid slice")]
    if prop == "C12":
        out = [(_pu().parseLengthWithUnits, (txt,), None)
               for txt in ("12.5mm", " 3in ", "7", "5em", "", "1e-3pt", "50%", None)]
        out += [(_pu().unitsToUserUnits, (txt, ref), None)
                for txt in ("12.5mm", "3in", "50%", "7", "x") for ref in (None, 200)]
        out += [(_pu().userUnitToUnits, (val, unit), None)
                for val in (0, 96.0, 1e-13, 300) for unit in ("in", "mm", "px", "%", "Q")]
        return out
    if prop == "C18":
        vals = (-2, 0, 0.5, 1, 1 + 1e-9, 3)
        out = [(_pu().checkLimits, (v, 0, 1), None) for v in vals]
        out += [(_pu().constrainLimits, (v, 0, 1), None) for v in vals]
        out += [(_pu().checkLimitsTol, (v, 0, 1, tol), None) for v in vals for tol in (0, 1e-9, 0.5)]
        out += [(_pu().point_in_bounds, ([x, y], [[0, 0], [1, 2]], tol), None)
                for x in vals for y in (0, 2.5) for tol in (1e-9, 0.5)]
        out += [(_pu().point_in_bounds, ([x, 1], [[0, 0], [1, 2]]), None) for x in vals]
        # a coordinate outside its bound by 0.85 .. 1.2 tolerances (a tolerance that is rescaled,
        # rounded or taken in other units moves this verdict and no other)
        for tol in (0.1, 0.5, 1e-9, 3.0):
            for hair in (0.85, 0.97, 1.04, 1.2):
                out += [(_pu().point_in_bounds, ([10 + hair * tol, 4.0], [[0, 0], [10, 8]], tol), None),
                        (_pu().point_in_bounds, ([5.0, -hair * tol], [[0, 0], [10, 8]], tol), None),
                        (_pu().checkLimitsTol, (10 + hair * tol, 0, 10, tol), None),
                        (_pu().checkLimitsTol, (-hair * tol, 0, 10, tol), None)]
        return out
    if prop == "C20":
        from plotink import text_utils
        out = [(text_utils.xml_escape, (txt,), None)
               for txt in ("a<b", "&amp;", "", "'\"", "x" * 70, "<![CDATA[x]]>")]
        out += [(text_utils.format_hms, (dur, mil), None)
                for dur in (0, 9.9994, 59.5, 3599.6, 4000, 1e5) for mil in (False, True)]
        out += [(text_utils.format_hms, (dur,), None) for dur in (0, 59.5, 3661)]
        return out
    if prop == "C13":
        from plotink import spatial_grid
        paths = [[[0, 0], [4, 1]], [[2, 3], [5, 5]], [[1, 4], [0, 2]], [[3, 3], [3, 0]]]

        def build_and_ask(vertices, bins_per_side, reverse, named):
            index = spatial_grid.Index(vertices=vertices, bins_per_side=bins_per_side,
                                       reverse=reverse) if named else \
                spatial_grid.Index(vertices, bins_per_side, reverse)
            out = []
            for step in range(3):
                for qry in ((0, 0), (2.5, 2.5), (6, 6), (-1, 3)):
                    out.append(index.nearest(vertex_in=list(qry)) if named else
                               index.nearest(list(qry)))
                if named:
                    index.remove_path(path_index=step)
                else:
                    index.remove_path(step)
            return out
        return [("pair", build_and_ask, (paths, bins, rev)) for bins in (2, 5) for rev in (False, True)]
    if prop == "C14":
        from plotink import rtree
        boxes = [(k, (k % 5, k % 3, k % 5 + 1 + k % 2, k % 3 + 2)) for k in range(12)]

        def build_and_ask(bboxes, named):
            index = rtree.Index(bboxes=bboxes) if named else rtree.Index(bboxes)
            return [sorted(index.intersection(bbox=qry) if named else index.intersection(qry))
                    for qry in ((0, 0, 1, 1), (2, 1, 2, 1), (-5, -5, -4, -4), (0, 0, 9, 9))]
        return [("pair", build_and_ask, (boxes,))]
    return []


def _run(entry):
    if entry[0] == "pair":
        _tag, func, args = entry
        import copy                         # pylint: disable=import-outside-toplevel
        outs = []
        for named in (False, True):
            try:
                outs.append(("value", func(*copy.deepcopy(list(args)), named)))
            except Exception as exc:        # pylint: disable=broad-except
                outs.append(("raised", type(exc).__name__, str(exc)[:100]))
        if outs[0] != outs[1]:
            return (f"index built and used with every argument by name answers {outs[1]!r}; built "
                    f"and used positionally, {outs[0]!r} (arguments {args!r})")[:700]
        return None
    func, args, observe = entry
    return core.by_keyword(func, args, observe)


def _norm(obj):
    if isinstance(obj, (list, tuple)):
        return tuple(_norm(v) for v in obj)
    if isinstance(obj, (set, frozenset)):
        return tuple(sorted(_norm(v) for v in obj))
    return obj


def _mix(obj, flip):
    """Innermost sequences of numbers (points, boxes) alternately as tuple and as list; every
    other container keeps its type (some are written to by the function under test)."""
    if isinstance(obj, (list, tuple)) and obj and \
            all(isinstance(v, (int, float)) and not isinstance(v, bool) for v in obj):
        flip[0] += 1
        return tuple(obj) if flip[0] % 2 else list(obj)
    if isinstance(obj, list):
        return [_mix(v, flip) for v in obj]
    if isinstance(obj, tuple):
        return tuple(_mix(v, flip) for v in obj)
    return obj


def _plain(entry, variant):
    """Outcome of the positional call under a variant of the *circumstances*: points handed over
    alternately as tuples and lists ("mixed"), or the caller's decimal context changed."""
    import copy                             # pylint: disable=import-outside-toplevel
    if entry[0] == "pair":
        _tag, func, args = entry
        call = lambda a: func(*a, False)                                # noqa: E731
        observe = None
    else:
        func, args, observe = entry
        call = lambda a: func(*a)                                       # noqa: E731
    mine = copy.deepcopy(list(args))
    if variant == "mixed":
        mine = _mix(mine, [0])
    try:
        if variant.startswith("setting:"):
            # a public module-level setting of plot_utils changed by an earlier, unrelated step
            # (the source recommends PX_PER_INCH = 90.0 for documents of Inkscape 0.91 and older)
            name, factor = variant.split(":")[1:]
            module = _pu()
            saved = getattr(module, name)
            setattr(module, name, saved * float(factor))
            try:
                got = call(mine)
            finally:
                setattr(module, name, saved)
        elif variant.startswith("decimal:"):
            from .props.c20 import decimal_setting                      # pylint: disable=import-outside-toplevel
            with decimal_setting(variant.split(":", 1)[1]):
                got = call(mine)
        else:
            got = call(mine)
        return ("value", _norm(observe(got, mine) if observe else got))
    except Exception as exc:                # pylint: disable=broad-except
        return ("raised", type(exc).__name__)


VARIANTS = ("mixed", "decimal:prec6", "decimal:round_down", "decimal:traps_inexact",
            "result_edited", "answer_kept", "warnings_error", "thread")


def _scribble(obj):
    """Edit a returned object in place the way a caller might (reverse it, shift its numbers):
    what the library handed out is the caller's to keep - it must not come back in a later
    answer (a result object kept in a cache and handed out again)."""
    if isinstance(obj, list):
        for idx, item in enumerate(obj):
            if isinstance(item, (int, float)) and not isinstance(item, bool):
                obj[idx] = item + 1000
            else:
                _scribble(item)
        obj.reverse()
    elif isinstance(obj, set):
        obj.clear()
    elif isinstance(obj, dict):
        obj.clear()
    elif isinstance(obj, tuple):
        for item in obj:
            _scribble(item)


def _edited_result(entry):
    """Call, keep a copy of the answer, scribble on the answer, call again with equal (fresh)
    arguments: the second answer must equal the copy of the first."""
    import copy                             # pylint: disable=import-outside-toplevel
    if entry[0] == "pair":
        return None
    func, args, observe = entry
    if observe is not None:
        return None                         # works in place: there is no result to keep
    try:
        first = func(*copy.deepcopy(list(args)))
        kept = copy.deepcopy(first)
        _scribble(first)
        second = func(*copy.deepcopy(list(args)))
    except Exception:                       # pylint: disable=broad-except
        return None                         # (a raising call is the other variants' business)
    if _norm(second) != _norm(kept) and repr(_norm(second)) != repr(_norm(kept)):
        return (f"{getattr(func, '__name__', 'call')}{tuple(args)!r} answered {kept!r}; after the "
                f"caller edited that answer in place, the same call answers {second!r}")[:700]
    return None


def _kept_answer(entry, other):
    """The caller keeps an answer (by reference) while it makes the next, different call: the
    kept answer must not change under its hands (a result buffer reused between calls)."""
    import copy                             # pylint: disable=import-outside-toplevel
    if entry[0] == "pair" or other[0] == "pair" or entry[2] is not None:
        return None
    func, args, _obs = entry
    try:
        kept = func(*copy.deepcopy(list(args)))
        snapshot = copy.deepcopy(kept)
        other[0](*copy.deepcopy(list(other[1])))
    except Exception:                       # pylint: disable=broad-except
        return None
    if _norm(kept) != _norm(snapshot) and repr(_norm(kept)) != repr(_norm(snapshot)):
        return (f"{getattr(func, '__name__', 'call')}{tuple(args)!r} answered {snapshot!r}; after "
                f"the next call, {getattr(other[0], '__name__', 'call')}{tuple(other[1])!r}, the "
                f"answer the caller still holds reads {kept!r}")[:700]
    return None


def _warnings_as_errors(entry):
    """The same positional call with the interpreter's warnings turned into errors (python -W
    error, pytest's filterwarnings = error): a library that starts to *warn* must not thereby
    stop to *answer*."""
    import warnings                         # pylint: disable=import-outside-toplevel
    base = _plain(entry, "plain")
    with warnings.catch_warnings():
        warnings.simplefilter("error")
        other = _plain(entry, "plain")
    if base != other and repr(base) != repr(other):
        name = getattr(entry[1] if entry[0] == "pair" else entry[0], "__name__", "call")
        args = entry[2] if entry[0] == "pair" else entry[1]
        return (f"{name}{tuple(args)!r} under warnings-as-errors gives {other!r}; otherwise "
                f"{base!r}")[:700]
    return None


def _from_a_thread(entry):
    """The same positional call made from a thread that did not import the library, with the
    caller's mpmath precision low when that thread starts (state kept per thread is set up for
    the importing thread only)."""
    import threading                        # pylint: disable=import-outside-toplevel
    import mpmath                           # pylint: disable=import-outside-toplevel
    base = _plain(entry, "plain")
    box = []
    saved = mpmath.mp.prec
    mpmath.mp.dps = 5
    try:
        worker = threading.Thread(target=lambda: box.append(_plain(entry, "plain")))
        worker.start()
        worker.join()
    finally:
        mpmath.mp.prec = saved
    other = box[0] if box else ("no result",)
    if base != other and repr(base) != repr(other):
        name = getattr(entry[1] if entry[0] == "pair" else entry[0], "__name__", "call")
        args = entry[2] if entry[0] == "pair" else entry[1]
        return (f"{name}{tuple(args)!r} called from a fresh thread (ambient mpmath precision 5 "
                f"digits) gives {other!r}; from the importing thread {base!r}")[:700]
    return None


def _run_variant(entry, variant, follower=None):
    if variant == "thread":
        return _from_a_thread(entry)
    if variant == "result_edited":
        return _edited_result(entry)
    if variant == "answer_kept":
        return _kept_answer(entry, follower) if follower is not None else None
    if variant == "warnings_error":
        return _warnings_as_errors(entry)
    base, other = _plain(entry, "plain"), _plain(entry, variant)
    if base != other and repr(base) != repr(other):
        name = getattr(entry[1] if entry[0] == "pair" else entry[0], "__name__", "call")
        args = entry[2] if entry[0] == "pair" else entry[1]
        what = "points handed over alternately as tuples and as lists" if variant == "mixed" \
            else (f"plot_utils.{variant.split(':')[1]} multiplied by {variant.split(':')[2]} "
                  f"beforehand" if variant.startswith("setting:")
                  else f"the caller's decimal context set to {variant.split(':', 1)[1]}")
        return (f"{name}{tuple(args)!r} with {what} gives {other!r}; otherwise {base!r}")[:700]
    return None


# properties whose functions have nothing to do with the pixel scale of a document
_SCALE_FREE = ("C08", "C09", "C10", "C11", "C13", "C14", "C18", "C20")


def _variants(prop):
    if prop not in _SCALE_FREE:
        return VARIANTS
    module = _pu()
    names = [n for n in dir(module) if n.isupper() and not n.startswith("_") and
             isinstance(getattr(module, n), (int, float)) and
             not isinstance(getattr(module, n), bool)]
    return VARIANTS + tuple(f"setting:{n}:{f}" for n in names for f in ("0.9375", "0.75", "1.25"))


def plain_outcomes(prop):
    """repr of the outcome of every representative call of a property, in order."""
    return [repr(_plain(entry, "plain")) for entry in _cases(prop)]


_INTERPRETERS = (("-O",), ("-OO",))


def _other_interpreter(prop, flags):
    """The same calls in a child interpreter started with the given flags (-O strips assert
    statements and `if __debug__:` blocks, -OO docstrings too): outcomes must not depend on how
    the interpreter was started.  Returns the list of outcome reprs, or a string on failure."""
    import json                             # pylint: disable=import-outside-toplevel
    import os                               # pylint: disable=import-outside-toplevel
    import subprocess                       # pylint: disable=import-outside-toplevel
    import sys                              # pylint: disable=import-outside-toplevel
    root = os.path.dirname(os.path.dirname(os.path.abspath(__file__)))
    code = ("import sys, json; sys.path.insert(0, %r); import mc; mc.bind_repo(); "
            "from mc import callforms; print('OUTCOMES' + json.dumps(callforms.plain_outcomes(%r)))"
            % (root, prop))
    proc = subprocess.run([sys.executable, *flags, "-c", code], capture_output=True, text=True,
                          check=False, timeout=600)
    for line in proc.stdout.splitlines():
        if line.startswith("OUTCOMES"):
            return json.loads(line[len("OUTCOMES"):])
    return "child interpreter failed: " + (proc.stderr or proc.stdout)[-300:]


def _interpreter_cases(prop, only=None):
    """[(number, flags, message)] for every representative call whose outcome changes."""
    here = plain_outcomes(prop)
    out = []
    cases = _cases(prop)
    for flags in _INTERPRETERS:
        there = _other_interpreter(prop, flags)
        if isinstance(there, str):
            raise RuntimeError(there)
        for number, (mine, theirs) in enumerate(zip(here, there)):
            if mine != theirs and (only is None or only == (number, list(flags))):
                entry = cases[number]
                name = getattr(entry[1] if entry[0] == "pair" else entry[0], "__name__", "call")
                args = entry[2] if entry[0] == "pair" else entry[1]
                out.append((number, list(flags),
                            (f"{name}{tuple(args)!r} gives {theirs} in an interpreter started with "
                             f"{' '.join(flags)}; otherwise {mine}")[:700]))
    return out


def explore(prop):
    part = core.Part()
    cases = _cases(prop)
    if cases:
        for number, flags, msg in _interpreter_cases(prop):
            part.violation(f"callform:{prop}:{number}:interpreter{''.join(flags)}", msg,
                           {"kind": "callform", "prop": prop, "number": number,
                            "variant": "interpreter", "flags": flags})
        part.count("call_form_cases", len(cases) * len(_INTERPRETERS))
        part.count("interpreter_flag_cases", len(cases) * len(_INTERPRETERS))
    for number, entry in enumerate(cases):
        follower = cases[(number + 1) % len(cases)]
        msg = _run(entry)
        part.count("call_form_cases")
        if msg:
            part.violation(f"callform:{prop}:{number}", msg,
                           {"kind": "callform", "prop": prop, "number": number})
        for variant in _variants(prop):
            msg = _run_variant(entry, variant, follower)
            part.count("call_form_cases")
            if msg:
                part.violation(f"callform:{prop}:{number}:{variant}", msg,
                               {"kind": "callform", "prop": prop, "number": number,
                                "variant": variant})
    return part


def replay(case):
    cases = _cases(case["prop"])
    entry = cases[case["number"]]
    follower = cases[(case["number"] + 1) % len(cases)]
    if case.get("variant") == "interpreter":
        return [m for _n, _f, m in _interpreter_cases(case["prop"],
                                                      (case["number"], list(case["flags"])))]
    msg = _run_variant(entry, case["variant"], follower) if case.get("variant") else _run(entry)
    return [msg] if msg else []
