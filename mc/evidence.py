"""Evidence writer: /verif/evidence/<id>.json, rewritten on every run from measured counters."""
import json
import os
import subprocess

from . import VERIF_ROOT

EVIDENCE_DIR = os.path.join(VERIF_ROOT, "evidence")
SCHEMA = "/root/.vp/EVIDENCE.schema.json"
VT_PYTHON = "/opt/veriftools/pyvenv/bin/python"

REQUIRED_COVERAGE = ("states", "transitions", "traces_validated_against_impl", "samples",
                     "evaluations", "distinct_nontrivial", "rule")


def write(prop, tier, seed, coverage, assumptions, wall_s, violations):
    for key in REQUIRED_COVERAGE:
        if key not in coverage:
            raise SystemExit(f"HARNESS-ERROR: evidence for {prop} lacks coverage.{key}")
    if coverage["states"] < 1 or coverage["transitions"] < 1 or not coverage["samples"]:
        raise SystemExit(f"HARNESS-ERROR: vacuous exploration for {prop}: {coverage}")
    if coverage["distinct_nontrivial"] < 2 or coverage["evaluations"] < 1:
        raise SystemExit(f"HARNESS-ERROR: no non-trivial cases explored for {prop}")
    doc = {
        "property_id": prop,
        "tier": tier,
        "seed": seed,
        "level": "model_checking",
        "coverage": coverage,
        "assumptions": list(assumptions),
        "wall_s": round(wall_s, 3),
        "violations": violations,
    }
    os.makedirs(EVIDENCE_DIR, exist_ok=True)
    path = os.path.join(EVIDENCE_DIR, prop + ".json")
    tmp = path + ".tmp"
    with open(tmp, "w", encoding="utf-8") as handle:
        json.dump(doc, handle, indent=1, sort_keys=False, default=repr)
        handle.write("\n")
    os.replace(tmp, path)
    return path


def validate(path):
    """Validate against the official schema with the tooling venv's jsonschema, if present.
    Returns None when valid or when no validator is available, else the error text."""
    if not (os.path.exists(VT_PYTHON) and os.path.exists(SCHEMA)):
        return None
    code = ("import json,sys,jsonschema;"
            "jsonschema.validate(json.load(open(sys.argv[1])),json.load(open(sys.argv[2])))")
    proc = subprocess.run([VT_PYTHON, "-c", code, path, SCHEMA], capture_output=True,
                          text=True, check=False)
    if proc.returncode == 0:
        return None
    return proc.stderr.strip().splitlines()[-1] if proc.stderr.strip() else "invalid"
