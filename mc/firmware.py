"""Reference firmware machines (EBB stepper ISR recurrences) in exact Python integers.

These are the *models* the library's closed-form predictions are compared against.  They
are deliberately the naive tick-by-tick loops of the property statements; the closed-form
sums further down are used only for moves too long to step, and are themselves compared
with the stepped machines on every short row (model-vs-model conformance, counted).
"""

TWO31 = 1 << 31
RATE_MAX = TWO31 - 1


def trunc_div(value, divisor):
    """Integer division truncated toward zero (C semantics)."""
    quo = abs(value) // divisor
    return quo if value >= 0 else -quo


def sign(value):
    return (value > 0) - (value < 0)


# --------------------------------------------------------------------------------- LT / LM

def lt_clear_value(rate, accel):
    """Accumulator start value for "clear": 0 if the first non-zero per-tick rate is
    forward (or there is none), 2^31-1 if it is backward."""
    rate_k = rate - trunc_div(accel, 2) + accel       # tick 1
    if rate_k == 0:
        rate_k = accel                                # every later tick has the sign of accel
    return RATE_MAX if rate_k < 0 else 0


def lt_states(rate, accel, accum, max_ticks):
    """Yield (k, rate_k, total_k) for k = 1.. while |rate_k| stays in the 31-bit range."""
    total = lt_clear_value(rate, accel) if accum == "clear" else accum
    rate_k = rate - trunc_div(accel, 2)
    for k in range(1, max_ticks + 1):
        rate_k += accel
        if abs(rate_k) > RATE_MAX:
            return
        total += rate_k
        yield k, rate_k, total


def lt_total_closed(rate, accel, accum, ticks):
    """Closed integer sum of the LT recurrence after `ticks` ticks (no domain check)."""
    start = lt_clear_value(rate, accel) if accum == "clear" else accum
    rate_0 = rate - trunc_div(accel, 2)
    return start + ticks * rate_0 + accel * ticks * (ticks + 1) // 2


def lt_in_domain(rate, accel, ticks):
    rate_0 = rate - trunc_div(accel, 2)
    return abs(rate_0 + accel) <= RATE_MAX and abs(rate_0 + ticks * accel) <= RATE_MAX


def split31(total):
    return total // TWO31, total % TWO31


# --------------------------------------------------------------------------------- T3

def t3_clear_value(rate, accel, jerk):
    """2^31-1 iff the first non-zero rate among ticks 1..3 is negative, else 0."""
    rate_k = rate - trunc_div(accel, 2) + trunc_div(jerk, 6)
    accel_k = accel
    for _ in range(3):
        rate_k += accel_k
        accel_k += jerk
        if rate_k != 0:
            return RATE_MAX if rate_k < 0 else 0
    return 0


def _in_i32(value, limit):
    """Signed 32-bit range [-2^31, 2^31-1] for the default limit (the T3 registers are int32;
    C02 says so), a symmetric bound for any other limit (C17's wider walk)."""
    return -limit - 1 <= value <= limit if limit == RATE_MAX else abs(value) <= limit


def t3_states(rate, accel, jerk, accum, max_ticks, limit=RATE_MAX):
    """Yield (k, rate_k, accel_k, total_k) while |rate_k| and |accel_k| stay within range."""
    total = t3_clear_value(rate, accel, jerk) if accum == "clear" else accum
    rate_k = rate - trunc_div(accel, 2) + trunc_div(jerk, 6)
    accel_k = accel
    for k in range(1, max_ticks + 1):
        rate_k += accel_k
        if not _in_i32(rate_k, limit) or not _in_i32(accel_k, limit):
            return
        accel_k += jerk
        total += rate_k
        yield k, rate_k, accel_k, total


def t3_total_closed(rate, accel, jerk, accum, ticks):
    start = t3_clear_value(rate, accel, jerk) if accum == "clear" else accum
    rate_0 = rate - trunc_div(accel, 2) + trunc_div(jerk, 6)
    cubic = jerk * (ticks ** 3 - ticks)
    assert cubic % 6 == 0
    return start + ticks * rate_0 + accel * ticks * (ticks + 1) // 2 + cubic // 6


def t3_rate_closed(rate, accel, jerk, ticks):
    rate_0 = rate - trunc_div(accel, 2) + trunc_div(jerk, 6)
    return rate_0 + accel * ticks + jerk * ticks * (ticks - 1) // 2


def t3_in_domain(rate, accel, jerk, ticks, limit=RATE_MAX):
    """Exact: |rate_k| <= limit for k=1..ticks and |accel at each tick| <= limit."""
    if not _in_i32(accel, limit) or not _in_i32(accel + (ticks - 1) * jerk, limit):
        return False
    cands = {1, ticks}
    if jerk != 0:
        # rate_k = r0 + a k + j k(k-1)/2 ; extremum near k* = 1/2 - a/j
        centre = (jerk - 2 * accel) // (2 * jerk)
        for k in (centre - 1, centre, centre + 1, centre + 2):
            if 1 <= k <= ticks:
                cands.add(k)
    return all(_in_i32(t3_rate_closed(rate, accel, jerk, k), limit) for k in cands)


# --------------------------------------------------------------------------------- LM oracle

def lm_stepped(steps, rate, accel, accum, max_ticks):
    """Step the LT machine until `steps` motor steps (either direction) have been taken.

    Returns ("done", k, pos_k, acc_k) at the first tick where the count reaches the budget,
    ("domain", k) if the rate leaves the 31-bit range first, ("long", max_ticks) otherwise.
    Also returns, through `trace`, nothing - kept minimal on purpose.
    """
    total = lt_clear_value(rate, accel) if accum == "clear" else accum
    rate_k = rate - trunc_div(accel, 2)
    pos = total // TWO31
    taken = 0
    for k in range(1, max_ticks + 1):
        rate_k += accel
        if abs(rate_k) > RATE_MAX:
            return ("domain", k)
        total += rate_k
        new_pos = total // TWO31
        taken += abs(new_pos - pos)
        pos = new_pos
        if taken >= steps:
            return ("done", k, pos, total % TWO31)
    return ("long", max_ticks)


def lm_budget_table(rate, accel, accum, budgets, max_ticks):
    """One run of the machine answers every budget: {s: (k, pos, acc)} for the budgets reached
    inside the domain within max_ticks; plus the reason the run stopped."""
    total = lt_clear_value(rate, accel) if accum == "clear" else accum
    rate_k = rate - trunc_div(accel, 2)
    pos = total // TWO31
    taken = 0
    todo = sorted(budgets)
    out = {}
    idx = 0
    for k in range(1, max_ticks + 1):
        rate_k += accel
        if abs(rate_k) > RATE_MAX:
            return out, "domain"
        total += rate_k
        new_pos = total // TWO31
        taken += abs(new_pos - pos)
        pos = new_pos
        while idx < len(todo) and taken >= todo[idx]:
            out[todo[idx]] = (k, pos, total % TWO31)
            idx += 1
        if idx == len(todo):
            return out, "all"
    return out, "long"


def _turning_tick(rate, accel):
    """Last tick whose rate still has the initial direction (or is zero); None = never turns."""
    rate_0 = rate - trunc_div(accel, 2)
    rate_1 = rate_0 + accel
    direction = sign(rate_1) if rate_1 != 0 else sign(accel)
    if direction == 0 or direction * accel >= 0:
        return None
    return (direction * rate_0) // abs(accel)


def lm_taken_closed(rate, accel, accum, ticks):
    """Motor steps taken in either direction after `ticks` ticks (closed form)."""
    def pos(k):
        return lt_total_closed(rate, accel, accum, k) // TWO31
    turn = _turning_tick(rate, accel)
    pos_0 = pos(0)
    if turn is None or ticks <= turn:
        return abs(pos(ticks) - pos_0)
    return abs(pos(turn) - pos_0) + abs(pos(ticks) - pos(turn))


def lm_closed(steps, rate, accel, accum, tick_cap=1 << 40):
    """Exact LM answer by bisection on the monotone step count.

    Returns ("done", k, pos, acc), ("domain", k) if the first tick reaching the budget lies
    outside the rate domain, or ("never",) if the budget is never reached below tick_cap.
    """
    if steps <= 0 or (rate == 0 and accel == 0):
        return ("never",)
    high = 1
    while lm_taken_closed(rate, accel, accum, high) < steps:
        high *= 2
        if high > tick_cap:
            return ("never",)
    low = high // 2                     # taken(low) < steps (or low == 0)
    while high - low > 1:
        mid = (low + high) // 2
        if lm_taken_closed(rate, accel, accum, mid) >= steps:
            high = mid
        else:
            low = mid
    if not lt_in_domain(rate, accel, high):
        return ("domain", high)
    total = lt_total_closed(rate, accel, accum, high)
    return ("done", high, total // TWO31, total % TWO31)
