"""Call histories over the motion calculators of ebb_calc (shared by C01, C02, C03, C17).

The five calculators are pure functions of their arguments.  Whatever a module remembers
between calls - a memo shared by several functions and keyed by the bare argument tuple, a
"last call" shortcut - shows only in *histories*: the same argument values handed first to the
sibling functions and then, twice in a row, to the function under test.  All such histories
over a small value alphabet are enumerated; every answer of the function under test is judged
by the exact firmware oracle (mc/firmware.py).
"""
import itertools

from . import core
from .firmware import (RATE_MAX, TWO31, lm_closed, lt_in_domain, lt_total_closed, split31,
                       t3_in_domain, t3_rate_closed, t3_states, t3_total_closed)

VALS = [0, 1, 2, 3, 7, 45, 300, 1300]
FUNCS = ("move_dist_lt", "calculate_lm", "move_dist_t3", "rate_t3", "max_rate_t3")


# one argument of the wrong kind each (an accumulator that is neither a number nor "clear")
BAD_CALLS = {"move_dist_lt": (1000, 10, 5, "Clear"), "calculate_lm": (3, 1000, 10, None),
             "move_dist_t3": (5, 1000, 10, 1, "none"), "rate_t3": (5, None, 10, 1),
             "max_rate_t3": (5, 1000, None, 1)}


def _lib():
    from plotink import ebb_calc            # pylint: disable=import-outside-toplevel
    return ebb_calc


def tuples():
    out = list(itertools.product(VALS, repeat=4))
    out += [t + (core.RUNTIME_CLEAR,) for t in itertools.product(VALS, repeat=3)]
    return out


def _ints(args):
    return all(isinstance(v, int) for v in args)


def verdict(name, args, got):
    """None if `got` is right (or the tuple is outside the function's domain), else a message."""
    # pylint: disable=too-many-return-statements,too-many-branches
    desc = f"{name}{tuple(args)!r} = {got!r}"
    if name == "move_dist_lt":
        rate, accel, ticks, accum = args
        if not _ints((rate, accel, ticks)) or ticks < 1 or not lt_in_domain(rate, accel, ticks):
            return None
        want = split31(lt_total_closed(rate, accel, accum, ticks))
        ok = isinstance(got, tuple) and len(got) == 2 and tuple(got) == want
        return None if ok else f"{desc}, firmware recurrence gives {want!r}"
    if name == "calculate_lm":
        steps, rate, accel, accum = args
        if not _ints((steps, rate, accel)) or steps < 1 or (rate == 0 and accel == 0):
            return None
        res = lm_closed(steps, rate, accel, accum)
        if res[0] != "done":
            return None
        want = tuple(res[1:])
        ok = isinstance(got, tuple) and tuple(got) == want
        return None if ok else f"{desc}, the recurrence first reaches the budget at {want!r}"
    accum = "clear"
    if len(args) == 5:
        if name != "move_dist_t3":
            return None
        accum = args[4]
        args = args[:4]
    ticks, rate, accel, jerk = args
    if not _ints(args) or ticks < 1 or not t3_in_domain(rate, accel, jerk, ticks):
        return None
    if name == "move_dist_t3":
        want = split31(t3_total_closed(rate, accel, jerk, accum, ticks))
        ok = isinstance(got, tuple) and len(got) == 2 and tuple(got) == want
        return None if ok else f"{desc}, firmware recurrence gives {want!r}"
    if name == "rate_t3":
        want = t3_rate_closed(rate, accel, jerk, ticks)
        return None if got == want else f"{desc}, firmware recurrence gives {want}"
    rates = [abs(r_k) for _k, r_k, _a, _t in t3_states(rate, accel, jerk, 0, ticks)]
    if len(rates) != ticks:
        return None
    peak = max(rates)
    if isinstance(got, bool) or not isinstance(got, (int, float)):
        return f"{desc}, expected a number between {max(rates[0], rates[-1])} and {peak}"
    if got > peak or got < rates[0] or got < rates[-1] or peak - got > abs(jerk):
        return (f"{desc}; |rate| is {rates[0]} at tick 1, {rates[-1]} at tick {ticks}, the "
                f"peak is {peak}, |jerk| = {abs(jerk)}")
    return None


def run_history(target, args):
    """Siblings first (answers ignored), then the target twice.  Returns [message]."""
    ebb_calc = _lib()
    for name in FUNCS:
        if name == target:
            continue
        try:
            with core.watchdog(5.0):
                getattr(ebb_calc, name)(*args)
        except Exception:                   # pylint: disable=broad-except
            pass                            # a sibling may reject the tuple; irrelevant here
        except core.CaseTimeout:
            pass
    out = []
    func = getattr(ebb_calc, target)
    import mpmath                           # pylint: disable=import-outside-toplevel
    for nth in ("after its sibling functions were called with the same values",
                "on the second identical call in a row",
                "after every calculator rejected a malformed call, under an ambient mpmath "
                "precision of 5 digits"):
        if nth.startswith("after every"):
            # what a rejected call leaves behind (a flag, a half-set precision) must not matter
            for name in FUNCS:
                for bad in (BAD_CALLS[name], (None,) * 4):
                    try:
                        with core.watchdog(5.0):
                            getattr(ebb_calc, name)(*bad)
                    except Exception:       # pylint: disable=broad-except
                        pass
                    except core.CaseTimeout:
                        pass
            mpmath.mp.dps = 5
        try:
            got = func(*args)
        except Exception as exc:            # pylint: disable=broad-except
            if verdict(target, args, None) is not None:
                out.append(f"{target}{tuple(args)!r} raised {type(exc).__name__}: {exc} {nth}")
            continue
        bad = verdict(target, args, got)
        if bad:
            out.append(f"{bad} - {nth}")
    mpmath.mp.dps = 15
    return out


NVALS = [-2, -1, 0, 1, 2, 300]
UNRELATED = {"move_dist_lt": (12345, 67, 89, 1011), "calculate_lm": (13, 12345, 67, 1011),
             "move_dist_t3": (89, 12345, 67, -3, 1011), "rate_t3": (89, 12345, 67, -3),
             "max_rate_t3": (89, 12345, 67, -3)}


def _accum_ok(target, args):
    accum = args[-1] if target in ("move_dist_lt", "calculate_lm") or len(args) == 5 else 0
    return not isinstance(accum, int) or 0 <= accum < TWO31


def neighbours(args):
    """The argument tuples that differ from `args` in one position, by one unit or by the sign
    (-1 and -2 included for a reason: they are the two small integers with the same hash)."""
    out = []
    for pos, val in enumerate(args):
        if not isinstance(val, int):
            continue
        for other in {val - 1, val + 1, -val} - {val}:
            out.append(tuple(args[:pos]) + (other,) + tuple(args[pos + 1:]))
    # the same move with another kind of start accumulator (explicit number <-> "clear"), and
    # with another duration: what one call remembers about "this segment" must not leak into
    # the next call that differs only there
    if args and (args[-1] == "clear" or (len(args) in (4, 5) and isinstance(args[-1], int))):
        for other in ("clear", 0, 5, TWO31 - 1):
            if other != args[-1]:
                out.append(tuple(args[:-1]) + (other,))
    return out


def run_neighbour(target, args, first):
    """`first` (a neighbouring argument tuple) is put to the target, then `args`: a table of
    recent results indexed by something weaker than the arguments hands the first answer out
    again.  Returns [message]."""
    func = getattr(_lib(), target)
    # an unrelated call first, so that every history starts from the same "most recent call"
    # (a one-entry memo is displaced; the pair below is then on its own)
    for warm in (UNRELATED[target], first):
        try:
            func(*warm)
        except Exception:                   # pylint: disable=broad-except
            pass
    try:
        got = func(*args)
    except Exception as exc:                # pylint: disable=broad-except
        if verdict(target, args, None) is not None:
            return [f"{target}{tuple(args)!r} raised {type(exc).__name__}: {exc} right after "
                    f"{target}{tuple(first)!r}"]
        return []
    bad = verdict(target, args, got)
    return [f"{bad} - right after the call {target}{tuple(first)!r}"] if bad else []


def neighbour_chunk(job):
    target, items = job
    part = core.Part()
    for args in items:
        if verdict(target, args, object()) is None:
            continue                        # outside the function's domain: nothing to judge
        if not _accum_ok(target, args):
            continue                        # a start accumulator is a value in [0, 2^31)
        for first in neighbours(args):
            for msg in run_neighbour(target, args, first):
                part.violation(f"neighbour:{target}:{args}:{first}", msg,
                               {"kind": "calc_neighbour", "target": target, "args": list(args),
                                "first": list(first)})
            part.count("calc_neighbour_histories")
    return part


def run_keyword(target, args, form):
    """The same call made the other ways Python allows: every argument by name, only the last
    one by name, a trailing "clear" left to its default.  Returns [message]."""
    import inspect                          # pylint: disable=import-outside-toplevel
    func = getattr(_lib(), target)
    names = list(inspect.signature(func).parameters)[:len(args)]
    if form == "all_named":
        call_args, call_kwargs = (), dict(zip(names, args))
    elif form == "last_named":
        call_args, call_kwargs = tuple(args[:-1]), {names[len(args) - 1]: args[-1]}
    elif form == "default_clear":
        if args[-1] != "clear":
            return []
        call_args, call_kwargs = tuple(args[:-1]), {}
    else:
        raise ValueError(form)
    shown = ", ".join([repr(a) for a in call_args] + [f"{k}={v!r}" for k, v in call_kwargs.items()])
    try:
        got = func(*call_args, **call_kwargs)
    except Exception as exc:                # pylint: disable=broad-except
        if verdict(target, args, None) is not None:
            return [f"{target}({shown}) raised {type(exc).__name__}: {exc}"]
        return []
    bad = verdict(target, args, got)
    return [bad.replace(f"{target}{tuple(args)!r}", f"{target}({shown})")] if bad else []


KEYWORD_FORMS = ("all_named", "last_named", "default_clear")


def keyword_chunk(job):
    target, items = job
    part = core.Part()
    for args in items:
        if verdict(target, args, object()) is None or not _accum_ok(target, args):
            continue
        for form in KEYWORD_FORMS:
            for msg in run_keyword(target, args, form):
                part.violation(f"keyword:{target}:{args}:{form}", msg,
                               {"kind": "calc_keyword", "target": target, "args": list(args),
                                "form": form})
            part.count("calc_keyword_calls")
    return part


def chunk(job):
    target, items = job
    part = core.Part()
    for args in items:
        if target in ("rate_t3", "max_rate_t3") and args[-1] == "clear":
            continue
        if target == "move_dist_t3" and args[-1] == "clear" and len(args) == 4:
            continue                        # (T, rate, accel, 'clear'): not a T3 argument list
        for msg in run_history(target, args):
            part.violation(f"history:{target}:{args}", msg,
                           {"kind": "calc_history", "target": target, "args": list(args)})
        part.count("calc_histories")
        if verdict(target, args, object()) is not None:
            part.count("calc_histories_judged")
    return part


# -- a fresh interpreter in which the application lowered the mpmath precision *before* it
#    imported the library (constants computed at import time carry that precision for good)
_FRESH = r"""
import json, sys
sys.path.insert(0, sys.argv[1])
import mpmath
mpmath.mp.prec = 24
from plotink import ebb_calc
out = []
for name, args in json.load(sys.stdin):
    try:
        got = getattr(ebb_calc, name)(*args)
        out.append(list(got) if isinstance(got, tuple) else got)
    except Exception as exc:
        out.append({"raised": repr(exc)})
    if mpmath.mp.prec > 24 and name in ("rate_t3", "max_rate_t3"):
        mpmath.mp.prec = 24
json.dump(out, sys.stdout)
"""

SPECIAL = {"move_dist_lt": [(-1073741824, 0, 2, "clear"), (-5, 0, 7, "clear"), (3, -8, 9, "clear"),
                            (-2147483647, 0, 1, "clear"), (1223372258, -217, 7667213, 1528960515)],
           "calculate_lm": [(3, -1073741824, 0, "clear"), (5, -400000000, 0, "clear"),
                            (2, -7, -3, "clear")],
           "move_dist_t3": [(2, -1073741824, 0, 0), (7, -5, 0, 0), (9, 3, -8, 1), (5, 0, 0, -7)],
           "rate_t3": [(10, 2147483000, 5, 1), (3, -2147483000, -7, 2)],
           "max_rate_t3": [(10, 2147483000, 5, 1), (41, -2000000000, 3, -5)]}


def fresh_import_cases(target):
    return [tuple(a) for a in SPECIAL[target]] + \
        [t for t in tuples()[::13] if not (target != "move_dist_lt" and target != "calculate_lm"
                                           and t[-1] == "clear")]


def run_fresh(target, cases):
    """[message] for the cases answered wrongly by a fresh low-precision-import interpreter."""
    import json                             # pylint: disable=import-outside-toplevel
    import os                               # pylint: disable=import-outside-toplevel
    import subprocess                       # pylint: disable=import-outside-toplevel
    import sys                              # pylint: disable=import-outside-toplevel
    import plotink                          # pylint: disable=import-outside-toplevel
    root = os.path.dirname(os.path.dirname(os.path.abspath(plotink.__file__)))
    proc = subprocess.run([sys.executable, "-B", "-c", _FRESH, root], check=False, timeout=300,
                          input=json.dumps([[target, list(c)] for c in cases]),
                          capture_output=True, text=True)
    if proc.returncode != 0:
        return [f"a fresh interpreter that lowers mpmath precision before importing "
                f"plotink.ebb_calc failed: {proc.stderr[-300:]}"] * 1, []
    answers = json.loads(proc.stdout)
    bad = []
    for args, got in zip(cases, answers):
        if isinstance(got, dict):
            if verdict(target, args, None) is not None:
                bad.append((args, f"{target}{tuple(args)!r} raised {got['raised']}"))
            continue
        got = tuple(got) if isinstance(got, list) else got
        msg = verdict(target, args, got)
        if msg:
            bad.append((args, msg))
    return [], [(a, m + " - in a fresh interpreter whose mpmath precision was 24 bits when "
                 "plotink.ebb_calc was first imported") for a, m in bad]


def explore_fresh(targets):
    part = core.Part()
    for target in targets:
        cases = fresh_import_cases(target)
        crashed, bad = run_fresh(target, cases)
        for msg in crashed:
            part.violation(f"fresh_import:{target}", msg, {"kind": "calc_fresh", "target": target,
                                                          "args": list(cases[0])})
        for args, msg in bad:
            part.violation(f"fresh_import:{target}:{args}", msg,
                           {"kind": "calc_fresh", "target": target, "args": list(args)})
        part.count("fresh_import_cases", len(cases))
    return part


def explore(ctx, targets):
    jobs = [(t, items) for t in targets for items in core.split(tuples(), 16)]
    part = core.fan_out(ctx, chunk, jobs)
    near = list(itertools.product(NVALS, repeat=4))
    near += [t + (core.RUNTIME_CLEAR,) for t in itertools.product(NVALS, repeat=3)]
    # T3 moves with an explicit / cleared accumulator (five arguments), both directions
    near += [(ticks, rate, accel, jerk, acc) for ticks in (1, 2, 22) for rate in (-490123456, -2, 3)
             for accel in (0, -1, 2) for jerk in (0, 1, -100000) for acc in (core.RUNTIME_CLEAR, 0, 7)]
    jobs = [(t, [a for a in items
                 if (len(a) == 5) == (t == "move_dist_t3" and len(a) == 5) and
                 not (len(a) == 4 and t in ("rate_t3", "max_rate_t3", "move_dist_t3") and
                      a[-1] == "clear")])
            for t in targets for items in core.split(near, 8)]
    part.merge(core.fan_out(ctx, neighbour_chunk, jobs))
    named = [t for t in tuples()[::5] + [a for v in SPECIAL.values() for a in v]
             if len(t) == 4 or t[-1] == "clear"]
    named += [(7, 490123456, 3, 1073741823), (490123456, 0, 20, 1073741823), (3, 7, -45, TWO31 - 1)]
    jobs = [(t, [a for a in items
                 if not (t in ("rate_t3", "max_rate_t3") and a[-1] == "clear")
                 and (len(a) == 5) == (t == "move_dist_t3" and len(a) == 5)])
            for t in targets for items in core.split(named, 4)]
    part.merge(core.fan_out(ctx, keyword_chunk, jobs))
    part.merge(explore_fresh(targets))
    return part


def replay(case):
    if case.get("kind") == "calc_fresh":
        crashed, bad = run_fresh(case["target"], [tuple(case["args"])])
        return crashed + [m for _a, m in bad]
    if case.get("kind") == "calc_keyword":
        return run_keyword(case["target"], tuple(case["args"]), case["form"])
    if case.get("kind") == "calc_neighbour":
        return run_neighbour(case["target"], tuple(case["args"]), tuple(case["first"]))
    return run_history(case["target"], tuple(case["args"]))


assert RATE_MAX == TWO31 - 1
