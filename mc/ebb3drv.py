"""Shared driver for the EBB3 class layer (C04, C05, C06, C15, C16).

* `probe_class()` - harness-side subclass of EBBMotionWrap whose __setattr__ logs every
  assignment to `err` (observation aid; nothing is changed in the library).
* `operations()` - the request-method alphabet, *discovered by introspection* and joined
  with an argument table; a method the table does not know is called with 1 for every
  positional parameter, so a newly added (possibly unguarded) method is still explored.
* `new_object()` - fresh object + fake port + board, either injected as connected and
  healthy (what connect() leaves behind) or never connected.
* `connect_env()` - stubs for comports() and serial.Serial in ebb3_serial's namespace.
"""
import inspect

import serial

from .fakeserial import EBB3Board, FakePort, PortInfo, QUIET, patched, serial_shim

NON_REQUEST = {"connect", "disconnect", "find_first", "min_version", "parse_version",
               "record_error"}

ARG_TABLE = {
    # R / RB / BL are named in the primitives' own code (I/O errors ignored for them), so they
    # are part of the alphabet: a shortcut visible in the code gets its own input
    "command": [("SM,10,1,1",), ("V",), ("C,1,2",), ("R",), ("RB",), (" bl ",)],
    "query": [("QM",), ("V",), ("QL,3",), ("R",), ("RB",)],
    "query_statusbyte": [()],
    "var_write": [(255, 31)],
    "var_read": [(5,)],
    "var_write_int32": [(-2, 28)],
    "var_read_int32": [(0,)],
    "query_nickname": [()],
    "write_nickname": [("Axi",)],
    "reboot": [()],
    "bootload": [()],
    "timed_pause": [(1600,)],
    "xy_move": [(3, -4, 50)],
    "abs_move": [(1000,), (1000, 0, 500)],
    "motors_disable": [()],
    "motors_enable": [(1, 1), (0, 3), (2, 0)],
    "motors_query_enabled": [()],
    "query_steps": [()],
    "clear_steps": [()],
    "clear_accumulators": [()],
    "pen_lower": [(100,), (100, 2)],
    "pen_raise": [(100,)],
    "dio_b_config": [(3, 1, 0)],
    "dio_b_set": [(3, 0)],
    "dio_b_read": [(3,)],
    "pen_pos_down": [(12000,)],
    "pen_pos_up": [(16000,)],
    "pen_rate_down": [(400,)],
    "pen_rate_up": [(400,)],
    "servo_timeout": [(60000,), (60000, 1)],
    "query_voltage": [(), (300,)],
    "query_current": [()],
}

_PROBE = {}


def lib():
    from plotink import ebb3_motion, ebb3_serial        # pylint: disable=import-outside-toplevel
    return ebb3_serial, ebb3_motion


def probe_class():
    _ser, motion = lib()
    base = motion.EBBMotionWrap
    if base not in _PROBE:
        class Probe(base):                              # pylint: disable=too-few-public-methods
            """EBBMotionWrap with a log of assignments to `err`."""

            def __setattr__(self, name, value):
                if name == "err":
                    self.__dict__.setdefault("err_log", []).append(value)
                    hook = self.__dict__.get("_verif_on_latch")
                    if hook is not None and value is not None and self.__dict__.get("err") is None:
                        hook()              # the moment the first error is latched
                object.__setattr__(self, name, value)
        _PROBE.clear()
        _PROBE[base] = Probe
    return _PROBE[base]


def request_methods():
    """Names of all public request methods of the class layer (introspection)."""
    _ser, motion = lib()
    cls = motion.EBBMotionWrap
    names = []
    for name in sorted(dir(cls)):
        if name.startswith("_") or name in NON_REQUEST:
            continue
        if callable(getattr(cls, name)):
            names.append(name)
    return names


def operations():
    """[(label, method, args)] - every request method with 1-3 argument tuples."""
    _ser, motion = lib()
    cls = motion.EBBMotionWrap
    ops = []
    for name in request_methods():
        arg_sets = ARG_TABLE.get(name)
        if arg_sets is None:
            params = [p for p in list(inspect.signature(getattr(cls, name)).parameters.values())[1:]
                      if p.default is inspect.Parameter.empty and
                      p.kind in (p.POSITIONAL_ONLY, p.POSITIONAL_OR_KEYWORD)]
            arg_sets = [tuple(1 for _ in params)]
        for args in arg_sets:
            ops.append((f"{name}{args!r}", name, tuple(args)))
    return ops


def is_failure_value(value):
    """None, False or a tuple of Nones - by identity (never True, text or a number)."""
    if value is None or value is False:
        return True
    return isinstance(value, tuple) and len(value) > 0 and all(v is None for v in value)


def make_decoy():
    """A second, healthy, connected object with its own quiet board: whatever happens to the
    object under test must leave it alone (state must live in the instance)."""
    decoy = probe_class()()
    board = EBB3Board(future=True, nickname="Decoy")
    port = FakePort(board, None, QUIET)
    decoy.port = port
    decoy.port_name = "/dev/ttyACM7"
    decoy.parse_version(board.banner)
    decoy.name = "Decoy"
    return decoy, port


def decoy_problem(decoy_pair):
    """None, or a description of how the unrelated object was affected."""
    decoy, port = decoy_pair
    if port.write_attempts:
        return f"an unrelated connected object had {port.write_attempts!r} written to its port"
    if decoy.err is not None or decoy.name != "Decoy" or decoy.port is not port:
        return (f"an unrelated connected object changed: err={decoy.err!r} name={decoy.name!r} "
                f"port kept={decoy.port is port}")
    ret, exc = call(decoy, "query", ("QM",))
    if exc is not None or ret != "0,0,0,0" or decoy.err is not None or \
            port.write_attempts != [b"QM\r"]:
        return (f"an unrelated healthy object could no longer query its own board: query('QM') "
                f"-> {ret!r} exc={exc!r} err={decoy.err!r} wrote {port.write_attempts!r}")
    return None


def new_object(chooser=None, profile=QUIET, board=None, connected=True):
    """Fresh probe object.  connected=True injects the state connect() leaves behind."""
    obj = probe_class()()
    board = board if board is not None else EBB3Board(future=True, nickname="Axi")
    port = FakePort(board, chooser, profile)
    if connected:
        obj.port = port
        obj.port_name = "/dev/ttyACM0"
        obj.parse_version(board.banner)
        obj.name = board.nickname.strip() or None
    return obj, port, board


def call(obj, method, args):
    """Invoke a method; returns (value, exception)."""
    try:
        return getattr(obj, method)(*args), None
    except Exception as exc:                            # pylint: disable=broad-except
        return None, exc


EBB_PORT = PortInfo("/dev/ttyACM0", "EiBotBoard,Axi", "USB VID:PID=04D8:FD92 SER=Axi LOCATION=1-1")


class connect_env:                                      # pylint: disable=invalid-name
    """Context manager: comports() lists one EBB; serial.Serial(...) hands out fake ports.

    `factory(name)` is called for each open and must return a FakePort or raise.
    """

    def __init__(self, factory, ports=(EBB_PORT,)):
        self.factory = factory
        self.ports = list(ports)
        self.opened = []
        self._patch = None

    def _open(self, name, *_args, **_kwargs):
        port = self.factory(name)
        self.opened.append(port)
        return port

    def __enter__(self):
        ser, _motion = lib()
        self._patch = patched(ser, serial=serial_shim(self._open), comports=lambda: list(self.ports))
        self._patch.__enter__()
        return self

    def __exit__(self, *exc):
        return self._patch.__exit__(*exc)


SerialException = serial.SerialException
