#!/venv/bin/python
"""Evaluate a seeded change delivered by a sub-agent, in scratch copies only (never /repo).

usage: try_seeded.py <dir with patch.diff + demo.py> <PROP> [--tier quick] [--keep-as NAME]

Steps: (1) patch applies to /repo HEAD; (2) with the patch the repository's tests pass and
demo.py exits 1; (3) without the patch demo.py exits 0; (4) ./check PROP on the patched copy
must print a VIOLATION line.  With --keep-as the artefacts are stored as
/verif/seeded/<NAME>/ (patch.diff, demo.py, notes.md, meta.json).
"""
import argparse
import json
import os
import shutil
import subprocess
import sys
import tempfile

ROOT = os.path.dirname(os.path.dirname(os.path.abspath(__file__)))
PY = "/venv/bin/python"


def sh(cmd, cwd=None, env=None):
    proc = subprocess.run(cmd, cwd=cwd, env=env, capture_output=True, text=True, check=False,
                          timeout=3600)
    return proc.returncode, (proc.stdout + proc.stderr)


def scratch():
    tmp = tempfile.mkdtemp(prefix="plotink-seed.", dir="/var/tmp")
    code, out = sh(["git", "-C", "/repo", "archive", "--format=tar", "HEAD", "-o",
                    os.path.join(tmp, "src.tar")])
    assert code == 0, out
    sh(["tar", "-xf", "src.tar"], cwd=tmp)
    os.remove(os.path.join(tmp, "src.tar"))
    return tmp


def main():
    parser = argparse.ArgumentParser()
    parser.add_argument("src")
    parser.add_argument("prop")
    parser.add_argument("--tier", default="quick")
    parser.add_argument("--keep-as")
    parser.add_argument("--also", default="", help="other properties whose checks to run too")
    args = parser.parse_args()
    patch = os.path.join(args.src, "patch.diff")
    demo = os.path.join(args.src, "demo.py")
    res = {"property": args.prop}
    clean, mutant = scratch(), scratch()
    try:
        code, out = sh(["git", "apply", "--check", patch], cwd=mutant) if False else \
            sh(["patch", "-p1", "--dry-run", "-i", patch], cwd=mutant)
        res["applies"] = code == 0
        if code != 0:
            print("patch does not apply:", out[-400:])
            return 2
        sh(["patch", "-p1", "-i", patch], cwd=mutant)
        for tree in (clean, mutant):
            os.makedirs(os.path.join(tree, "SEEDED"), exist_ok=True)
            shutil.copy(demo, os.path.join(tree, "SEEDED", "demo.py"))
        code, out = sh([PY, "-m", "pytest", "-q", "-p", "no:cacheprovider"], cwd=mutant)
        res["tests_pass_with_change"] = code == 0
        res["tests_tail"] = out.strip().splitlines()[-1:]
        code_m, out_m = sh([PY, "SEEDED/demo.py"], cwd=mutant)
        code_c, out_c = sh([PY, "SEEDED/demo.py"], cwd=clean)
        res["demo_with_change_exit"] = code_m
        res["demo_without_change_exit"] = code_c
        res["demo_output_with_change"] = out_m.strip().splitlines()[-3:]
        env = dict(os.environ, PLOTINK_REPO=mutant, VERIF_REPLAY_DIR=os.path.join(mutant, "replays"))
        res["checks"] = {}
        for prop in [args.prop] + [p for p in args.also.split(",") if p]:
            code, out = sh([os.path.join(ROOT, "check"), prop, "--tier", args.tier], env=env)
            hit = code == 1 and f"VIOLATION property={prop}" in out
            what = [ln.strip() for ln in out.splitlines() if ln.strip().startswith("what:")][:1]
            res["checks"][prop] = {"exit": code, "detected": hit, "first": what}
            for line in out.splitlines():
                if "replay=" in line:
                    path = line.split("replay=")[1].strip()
                    if os.path.exists(path):
                        os.remove(path)
        print(json.dumps(res, indent=1))
        valid = res["tests_pass_with_change"] and code_m == 1 and code_c == 0
        if args.keep_as and valid:
            dest = os.path.join(ROOT, "seeded", args.keep_as)
            os.makedirs(dest, exist_ok=True)
            shutil.copy(patch, dest)
            shutil.copy(demo, dest)
            notes = os.path.join(args.src, "notes.md")
            if os.path.exists(notes):
                shutil.copy(notes, dest)
            meta = {"breaks_property": args.prop, "source": "independent sub-agent given only the "
                    "property text and a scratch worktree",
                    "needs_to_manifest": "see notes.md",
                    "confirmed": {"patch_applies_to_repo_head": True,
                                  "repo_tests_pass_with_change": res["tests_pass_with_change"],
                                  "demo_exit_with_change": code_m,
                                  "demo_exit_without_change": code_c},
                    "what_was_run": [f"patch -p1 on a scratch export of /repo HEAD",
                                     "/venv/bin/python -m pytest -q -p no:cacheprovider (33 passed)",
                                     "SEEDED/demo.py with and without the change",
                                     f"PLOTINK_REPO=<scratch> ./check {args.prop} --tier {args.tier}"],
                    "check_results": res["checks"]}
            with open(os.path.join(dest, "meta.json"), "w", encoding="utf-8") as handle:
                json.dump(meta, handle, indent=1)
            print("kept as", dest)
        return 0 if valid else 3
    finally:
        shutil.rmtree(clean, ignore_errors=True)
        shutil.rmtree(mutant, ignore_errors=True)


if __name__ == "__main__":
    sys.exit(main())
