#!/bin/bash
# usage: eval_seeded.sh <suffix> C01 C02 ...   -> runs try_seeded on /tmp/wt-<P><suffix>/SEEDED, one summary line each
suffix=$1; shift
for p in "$@"; do
  /venv/bin/python /verif/tools/try_seeded.py /tmp/wt-${p}${suffix}/SEEDED $p $EXTRA 2>&1 | python3 -c "
import sys,json
t=sys.stdin.read()
try:
    d=json.loads(t[t.index('{'):t.rindex('}')+1])
    c=d['checks']['$p']
    print('$p$suffix','applies',d['applies'],'tests',d['tests_pass_with_change'],'demo',d['demo_with_change_exit'],d['demo_without_change_exit'],'DETECTED' if c['detected'] else 'MISSED exit=%s'%c['exit'], (c['first'] or [''])[0][:260])
except Exception as e: print('$p$suffix RAW',t[-600:])
"
done
