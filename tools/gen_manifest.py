#!/venv/bin/python
"""Regenerate /verif/MANIFEST.json from the table below (keeps it schema-valid at all times).

A property is *claimed* when mc/props/cNN.py exists and it has an entry in CHECKS;
everything else is listed under not_applicable with the reason given in PENDING.
"""
import json
import os
import sys

ROOT = os.path.dirname(os.path.dirname(os.path.abspath(__file__)))

ALL = [f"C{n:02d}" for n in range(1, 21)]

# id -> (technique, level text, level note, design ref)
CHECKS = {
    "C01": ("explicit-state walk of the LT firmware machine from a boundary lattice of initial "
            "states; real predictor compared at every visited state",
            "The integer step-accumulator machine is stepped tick by tick from every (rate, "
            "accel, accumulator|clear) of a boundary lattice; at each of its states the real "
            "move_dist_lt and both deprecated aliases are called (under five ambient mpmath "
            "precisions on a sub-lattice) and must equal the machine exactly. Moves up to "
            "2^32-1 ticks use the closed integer sum, itself checked against the machine.",
            "Exhaustive only over the stated lattice (all sign/parity/zero classes, powers of "
            "two +-1, extreme magnitudes); trusts mc/firmware.py as the firmware recurrence.",
            "DESIGN.md §3 C01"),
    "C02": ("explicit-state walk of the T3 firmware machine incl. constructed zero-rate rows; "
            "real predictors compared at every visited state",
            "The third-order machine is stepped from every (rate, accel, jerk, accum|clear) of "
            "a boundary lattice plus rows constructed to make the rate zero at ticks 1, 1-2 and "
            "1-3 (all clear-rule levels); move_dist_t3, rate_t3 and the zero-jerk coincidence "
            "with move_dist_lt are checked exactly at every state, long moves by closed form; the "
            "domain is the signed 32-bit range taken literally ([-2^31, 2^31-1]) with rows whose "
            "rate touches either end exactly at a chosen tick.",
            "Exhaustive only over the stated lattice; trusts mc/firmware.py as the recurrence.",
            "DESIGN.md §3 C02"),
    "C03": ("explicit-state walk of the LM machine (LT + step counter); one run yields the first-"
            "tick oracle for every budget; exact bisection oracle for long moves",
            "From every initial state of the lattice the machine is stepped once; the first "
            "tick at which the steps taken reach each budget gives (duration, position, "
            "accumulator), compared exactly with calculate_lm, its legacy negative-step mirror, "
            "moveTimeLM and the move_dist_lt round trip; minimality is inherent (first tick). Long "
            "moves (budgets to 2^26/2^30) use the exact bisection oracle, with start accumulators "
            "constructed to complete the budget exactly on, just before and just after a tick.",
            "Exhaustive only over the stated lattice; 'steps taken' = sum of |position change| "
            "per tick under the C01 recurrence.",
            "DESIGN.md §3 C03"),
    "C17": ("explicit-state walk of the T3 machine carrying the running peak; bracket invariant "
            "evaluated at every state",
            "At every state of the stepped T3 machine (two lattices, up to 300/2000 ticks) the "
            "real max_rate_t3 must lie between both end rates and the true running peak and "
            "fall short of the peak by at most |jerk|; ~6e4 states have a strictly interior peak; "
            "rows touching 2^31-1 / -2^31 and rows crossing the limit included.",
            "Exhaustive only over the stated lattice; trusts mc/firmware.py as the recurrence.",
            "DESIGN.md §3 C17"),
    "C04": ("explicit-state search over call histories of the real EBB3 object (E2) with error "
            "states discovered by deviation-bounded fault exploration (E1)",
            "All request methods (found by introspection) are run from the healthy state under "
            "every environment vector with <= 1 (thorough 2) deviations to discover every "
            "blocked state (one per recorded message/board state); from each of them, and from "
            "12 not-connected states, every method is run again, then disconnect (also with close() "
            "raising) / connect variants (ok, non-EBB, open fails, silent, old firmware, "
            "version-less, name not found) and every method once more; an unrelated decoy object "
            "must stay untouched: zero write attempts, failure value, no "
            "exception, and a logged first-error-wins latch are checked on every transition; on "
            "the healthy object a port exception (SerialException, SerialTimeoutException, PortNotOpenError, OSError, RuntimeError), a device "
            "error reply, an unexpected reply or a timeout during a non-exempt request must be "
            "latched (and an exception must not escape); ten representative requests are explored "
            "with two deviations in the quick tier as well.",
            "Trusts the fake port/board; connect() faults are left to C15; histories of depth "
            "<= 4 (5 thorough).",
            "DESIGN.md §3 C04"),
    "C05": ("deviation-bounded exhaustive exploration (E1) of fake-port answers for the "
            "primitives, every request method and all ordered method pairs, against an "
            "independent reference model and a reply-attribution ledger",
            "command/query x 14 request strings and every public request method are executed "
            "for every environment vector with <= 2 (thorough 3) deviations (latency "
            "0/1/24/25/26, bare/comma-less/echoing/comma-led/wrong-name/shifted/error replies, "
            "silence, four exception "
            "classes at write and early reads); framing, success criterion, payload stripping, "
            "no-raise, error recording, failure value, differential equality under tolerated "
            "latencies and attribution of every reply are checked on each execution.",
            "Trusts EBB3Board (future syntax). query_statusbyte treated as single-read poll; "
            "RB/R/BL exception exemption as coded in the library (DESIGN C05 i-iv).",
            "DESIGN.md §3 C05"),
    "C06": ("exhaustive lattice enumeration (E3) of helper arguments in both layers against a "
            "table of documented command formats; bytes observed at an acknowledging fake port",
            "Every helper of ebb_motion and every EBB3 request method (introspected; a helper "
            "without a table entry is reported) is called over the full product of a 17-value "
            "integer alphabet with optional arguments absent/None/0/non-zero, resolutions -2..8 "
            "from all 20 board motor states, every pause -3..4000, LM over 4^6 x clear; exact "
            "text, cross-layer equality, chunk-sum and no-port silence are checked.",
            "Documented formats come from the EBB command reference/docstrings as transcribed "
            "in mc/props/c06.py; one known finding (doLowLevelMove clear=0) is listed.",
            "DESIGN.md §3 C06"),
    "C08": ("exhaustive lattice enumeration (E3) of segment x rectangle region pairs with an "
            "exact rational Liang-Barsky reference and a loop-budget monitor",
            "Every segment with endpoints on an 8x8 lattice against 5 rectangles (incl. zero-"
            "height, zero-width, point), the same lattice in tenths, shifted by 1e6 and scaled "
            "by 1e-3: accept/reject, endpoints on the segment and in the rectangle, orientation "
            "and coverage of the exact inside part, no exception, no unbounded loop; the integer "
            "lattice also with segment, rectangle and points given as tuples.",
            "Tolerance 1e-9 x coordinate scale; touching-only cases may go either way.",
            "DESIGN.md §3 C08"),
    "C09": ("exhaustive enumeration (E3) of all vertex lists up to length 5/6 over a 3x3 lattice "
            "x tolerances with exact rational distances",
            "Identity-preserving subsequence, kept end points, every deleted vertex strictly "
            "closer than the tolerance to the segment of its surviving neighbours, untouched "
            "short lists / non-positive tolerances; fast predicate vs reference measurement on "
            "all 4/5-point tuples; long oblique chords (to 1e8 units, tolerance to 1e-3) with "
            "vertices 0.25..4 tolerances off the chord, exact oracle on the float coordinates.",
            "Exhaustive over the lattice only; exact distance ties are skipped and counted.",
            "DESIGN.md §3 C09"),
    "C10": ("exhaustive enumeration (E3) of lattice Bezier node lists with a per-split transition "
            "monitor (every intermediate node list is a checked state)",
            "All 6561 one-piece curves (and two-piece lists, long lists) over the lattice x six "
            "flatness values, points as lists and tuples; where single splits are observable each "
            "must replace exactly one piece by its exact de Casteljau halves; original nodes "
            "survive by identity, the final pieces tile the original dyadically and are flat; the "
            "result must commute with scaling by 2^16 and with translation by (2^31, -2^30); split "
            "budget 600, depth 48.",
            "Lattice coordinates make every midpoint an exact dyadic float.",
            "DESIGN.md §3 C10"),
    "C11": ("exhaustive lattice enumeration (E3) of viewBox x page x preserveAspectRatio against "
            "the SVG 1.1 rule in exact rationals, compared through the mapping",
            "Full product of viewBox geometry, document sizes, none + 9 alignments, meet/slice/"
            "absent, defer, spelling and separator variants, plus pages and viewBoxes whose "
            "aspect ratios differ by 1e-7..1e-3 or not at all; malformed viewBoxes and the whole "
            "sign lattice of the four sizes (8^4 tuples with at least one non-positive) must "
            "give identity; full product of 10 x 8 separator/case spellings (space, comma, tab, LF, "
            "CRLF) of both attributes.",
            "Python-only numerals (nan, inf, 1_0) and unknown keywords are outside the quantifier.",
            "DESIGN.md §3 C11"),
    "C12": ("exhaustive enumeration (E3) of all strings up to length 5/6 over a numeral alphabet x "
            "unit suffixes x whitespace against an exact factor table",
            "Every numeral x unit is pushed through the parser, both converters, the round trip "
            "and both attribute readers (percentages of several references, 0 included) and "
            "cross-checked; every non-numeral, unsupported suffix and every string of 1..4/5 "
            "letters drawn from the unit names' own letters must yield None without raising; an "
            "explicit percent_ref=None must equal the omitted reference.",
            "96 px/in factor table from SVG/CSS; infinite/nan literals outside the quantifier.",
            "DESIGN.md §3 C12"),
    "C13": ("explicit-state search (E2) over removal histories of the real grid index x exhaustive "
            "geometry lattice (E3), brute-force reference",
            "All 1- and 2-path sets over the 3x3 lattice (3-path sets over a sub-lattice) x bins "
            "per side x reverse; every removal order is executed, states reached by different "
            "orders are compared field by field, and in every state nearest() is queried on a "
            "lattice of points inside, on and outside the grid; fine two-path sets straddling a "
            "cell wall, layouts of 40-240 paths; an unrelated index built first must be unchanged "
            "afterwards, and a fixed conditioning history on another unrelated index (queried, "
            "emptied, queried) precedes every index under test and every replay.",
            "Zero-extent sets excluded (precondition); distance ties accepted.",
            "DESIGN.md §3 C13"),
    "C14": ("exhaustive enumeration (E3) of box multisets x query boxes against brute force",
            "All multisets of up to 4 (thorough 5) boxes over a 3-value coordinate alphabet (36 "
            "boxes, half of them degenerate) x all 36 queries, smaller multisets over 4 values, "
            "all 4096 subsets of a deep 12-box arrangement; every query list is asked forwards then "
            "backwards on the same index object; construction depth/time budget; an "
            "unrelated index built first must keep its answers (no state shared between indexes).",
            "Exhaustive over the alphabets only.",
            "DESIGN.md §3 C14"),
    "C15": ("exhaustive enumeration of version/threshold pairs (E3) plus deviation-bounded "
            "exploration of connect() handshake histories (E1/E2) with stubbed enumerator/port",
            "729x729 version pairs through both layers' min_version, 42 ordered pairs of boards "
            "alive side by side asked a, b, a; MIN_VERSION_STRING raised / lowered (5 x 11 boards x "
            "subclass, instance, class attribute); connect() histories "
            "(connect+requests, connect-connect, connect-disconnect-connect) under every "
            "environment vector with <= 2 (thorough 3) deviations over open failure, 9 banner "
            "kinds per probe, late/silent/error replies and raising I/O incl. close(): True+no-error only "
            "after a verified >= 3.0.2 banner, rejected devices get False+error+closed port and "
            "nothing beyond the probe, in every later call too; 5 legacy gates x 12 versions.",
            "Faults after a supported board was verified are explored but unclassified.",
            "DESIGN.md §3 C15"),
    "C16": ("explicit-state search of write/read and motor-enable histories against the "
            "EBB3Board reference model",
            "All int32 byte-pattern values x all slots (RAM inspected directly), overlapping "
            "double writes, all 20 motor states (installed directly and reached through the "
            "library, compared) x all (r1,r2) in -1..7 with query read-back, depth-2 chains and all "
            "depth-3 chains over 16 requests, 20x20 nickname histories (incl. names made of the "
            "reply header's characters), depth-3/4 RAM write histories against a model RAM, and "
            "two objects on two boards used in turn (all histories of 3/4 steps over 2x8 operations).",
            "Trusts EBB3Board's EM/QE/SL/QL/ST/QT semantics (EBB command reference).",
            "DESIGN.md §3 C16"),
    "C07": ("deviation-bounded exhaustive exploration of fake-port answers (E1) over request "
            "histories (E2), real code vs. board-model ledger",
            "Every history of 1-2 (thorough: 3) legacy requests is executed on the real "
            "ebb_serial.query/command against a scripted port for every vector of environment "
            "answers with at most 2 deviations (empty reads up to and past the retry limit, "
            "silence, error lines, exceptions at write or at any early read); one-write, "
            "no-raise, returns-text and reply-attribution are checked on every execution; sessions "
            "of 40/61/150 requests with one deviation anywhere, OK-prefixed nicknames, and 36 "
            "sessions alternating between two different boards on two ports.",
            "Trusts the LegacyBoard reply model (OK / data+OK / no-OK set from the EBB command "
            "reference) and that pyserial faults surface as the injected exception classes.",
            "DESIGN.md §3 C07"),
    "C18": ("exhaustive lattice enumeration (E3) over dyadic values, bounds and tolerances with "
            "exact rational oracle",
            "All ranges x values (incl. bound +- tolerance and one quantum beyond) x tolerances, "
            "as floats, ints and mixed, for the three scalar helpers; all lattice points x 100 "
            "rectangles for the 2-D test and its agreement with the tolerant checker.",
            "Dyadic alphabet keeps bound +- tolerance exact; the one place where it is not (an int bound "
            "beyond 2^53 with a float tolerance) is explored too and is a listed known finding (K2).",
            "DESIGN.md §3 C18"),
    "C19": ("exhaustive enumeration (E3) of ordered port lists x derived lookup names through "
            "both layers with a stubbed enumerator",
            "All ordered lists of 0..4 (thorough 5) ports over 14 descriptor kinds (blanks in names, "
            "description-only names, SER=/SNR= styles, foreign devices); first-board "
            "discovery, listings, reported names and every lookup derived from the list (names, "
            "serial tags, port names in three casings) in both layers, a failing enumerator, "
            "all ordered pairs of short lists discovered in turn by one EBB3 object, 46-port "
            "enumerations, and every letter/digit/mark as first, last and only character of a name "
            "held in the description, the SER= tag or the SNR= tag.",
            "Descriptor strings modelled on pyserial 3 output.",
            "DESIGN.md §3 C19"),
    "C20": ("exhaustive enumeration (E3) of token sequences (lxml round trip) and of every "
            "millisecond across the minute/hour rollovers with an exact oracle",
            "All token sequences up to length 4 (thorough 5) over specials, entities and text; every "
            "XML 1.0 character U+0020..U+10FFFF alone, after a letter and before a combining mark; "
            "every integer millisecond 0..3.7e6 in both units, the three floats around every "
            "half-second boundary to 1e5 (1e6) s.",
            "TAB/CR/LF compared with the parser-normalised original; exact .5 ties accept both.",
            "DESIGN.md §3 C20"),
}

# what waves 10-17 of independently seeded changes added (appended to the level text)
ADDED = {
    "C01": " Long moves also from start accumulators constructed to end exactly at a step boundary; call "
           "histories (siblings first, same call twice, after rejected calls under ambient precision 5) and "
           "a fresh interpreter with low precision set before import."
           " Neighbour histories (one argument changed by a unit or its sign first), keyword call forms, and a product lattice of rates 2^a+d x ticks 2^c+e (d, e in -3..1)."
           " Tick counts and product bounds taken from ebb_calc's own source (literals and folded constant expressions), rate x T just below 2^52 / 2^53 for T around every power of two; calls under warnings-as-errors."
           " Every representative call again from a fresh thread (ambient precision 5 digits) and in python -O / -OO child interpreters.",
    "C02": " Rows touching 2^31-1 / -2^31 at a chosen tick, boundary-directed accumulators for long moves, "
           "call histories and the fresh low-precision interpreter as for C01."
           " Neighbour histories and keyword call forms as for C01."
           " Unrelated conditioning call before each two-call history, number <-> 'clear' accumulator swaps.",
    "C03": " Turn-directed family: reversing moves with start accumulators putting the total at the turning "
           "tick 0..turn counts short of / past a step boundary; moveTimeLM must report 0 for cannot-move "
           "requests; call histories as for C01."
           " Turns up to 600 million ticks in; boundary-directed accelerations with a long binary reciprocal; neighbour histories and keyword call forms."
           " Wrong-constant and late-turn rows (accel -3..-255, margins 0..5); calls under warnings-as-errors."
           " Call forms from a fresh thread and in -O / -OO interpreters.",
    "C17": " Window-edge rows (turning point k/|jerk| of a tick inside the sampling window); call histories as for C01."
           " Neighbour histories and keyword call forms as for C01."
           " Moves of 2^31 ticks and more; jerk a thousand times smaller than the acceleration; turning points a hair inside the window edge at |jerk| 1e8..6e8, T 4..12."
           " Move lengths written in ebb_calc's source (and 4096, 100000) with jerk 1..7 and the turning point inside the move.",
    "C04": " connect() against a pre-release of the minimum firmware must be refused."
           " Almost-right replies (same first letter; cut short; long error text after 88 characters of echo) and errno-carrying exceptions (EAGAIN, EINTR, EPIPE)."
           " Stale lines in front of a reply; every exception class and message text pyserial's own read()/write() can raise (harvested from the installed pyserial)."
           " The restart-name exemption covers command() and the reboot / bootload helpers only.",
    "C05": " Requests of 63/64/65/128 characters (bytes on the wire compared), bare line ends as empty reads, "
           "RuntimeError as a fault, every request again under DEBUG logging; the restart-name exemption "
           "covers command() only."
           " Brace texts, payloads that begin with a blank or tab, almost-right and long replies, errno-carrying exceptions, slow sessions of 30 / 70 calls on one object."
           " Slow sessions on a virtual clock; conforming payloads with punctuation; the harvested pyserial fault texts.",
    "C06": " Pauses and moves repeated under DEBUG logging; gated helper pairs on re-plugged boards."
           " Slow sessions (every reply one / three reads late, 30 / 70 (400) calls); each LM argument at the ends of the int32 range; every EBB3 helper again on boards that reported firmware 3.0.3 / 3.2.0 / 10.1.0."
           " One object across disconnect / reboot / bootload and reconnect; LM commands of harvested lengths; every number singled out in the modules' source and every documented firmware default in each integer argument.",
    "C07": " Command texts with braces / percent signs; a second board variant that acknowledges RB / BL, "
           "in five spellings alone, before and between other requests."
           " The data line that arrived before a fault is the answer; write clause on the bytes on the wire, LM requests of 63..75 characters; slow sessions; errno-carrying exceptions."
           " Ports that say they are closed; ordinary queries beyond the model board's (QE, QN, QR, QU and look-alikes of the no-OK names); harvested pyserial fault texts."
           " Ports reporting a read timeout of None, 0, 0.05, 1.5, 2, 5, 60 s.",
    "C08": " The lattice in units of 2^-40 and 2^+-600; kept-and-edited bounds objects; dots well inside must "
           "be accepted; 10368 slivers crossing an edge at 2^-38 / 2^-45 from parallel (an end may differ "
           "from the exact crossing only by a stretch nowhere inside by more than the tolerance)."
           " The lattice in subnormal units (2^-1030), mixed list/tuple points, keyword / mixed / decimal-context call forms."
           " Answers kept across the next call or edited by the caller; a public module setting (PX_PER_INCH) changed beforehand."
           " Call forms from a fresh thread and in -O / -OO interpreters.",
    "C09": " Creeping near-repeat lists at 2^20 / 2^30, the lists in units of 2^+-200, strict ties on exact "
           "inputs, one vertex object at two positions."
           " Arcs of 1001..5000 vertices, vertices beyond the ends of long chords, tolerances down to 1e-14 of the chord, call forms."
           " Retraced strokes; one window of c-1..c+2 and 2c+1 vertices for every constant up to 100000 in plot_utils' source (overshoot, back-track, bulge, zigzag); doubling-back dense strokes."
           " 1824 lists with a vertex at distance exactly the tolerance from whole-number chords of length 1..30 (axis-parallel, 3:4, 5:12).",
    "C10": " One arch at flatness 2^-23 (2^16 pieces, 16 halvings in a row), needles, strict flatness for "
           "dyadic flatness values, input lists of 255..1300 (4097) nodes."
           " Shared list objects for equal points, handles past their node on long chords, one call yielding ~900000 pieces (float judgement with a guard band), call forms."
           " Crowded node lists of harvested sizes; flatness values whose square overflows; pieces whose first halving lands a node on an equal-valued existing node (lists and tuples).",
    "C11": " Separator cases in units of 2^+-200 / 2^+-600; relative tolerance without floor; rejected calls "
           "as conditioning."
           " Title / swapped / all 16 case patterns of keywords; viewBoxes that restate the page size rounded (%g, %.3f, ...); call forms."
           " Origins huge against sizes; the SVG number grammar spelt out (234 spellings) in each viewBox position."
           " Call forms (incl. non-positive sizes) in -O / -OO interpreters and from a fresh thread.",
    "C12": " Numeric-text, Decimal, Fraction and bool references; two real lxml documents per text next to the stub."
           " Sign / point look-alike characters in numerals; call forms."
           " str-subclass attribute texts; one caller object across documents and one document edited in place (clause owner_reuse).",
    "C13": " The geometry scaled by 2^+-200 and shifted by 2^50; 145 grids with whole-number cell widths and "
           "queries bit-exactly on cell walls."
           " Grids of 100..400 (640) cells per side queried next to every end; call forms for the constructor, nearest and remove_path."
           " Paths shorter than the underflow of their square; decimal (tenths) coordinates with queries half-way between ends; near-ties within 2^-46 relative accepted either way."
           " The large layouts also with 1 and 2 bins per side (hundreds of ends in one cell).",
    "C14": " Queries through a kept list object; coordinates in tenths, beyond 2^53 and near 1.6e308; crowded "
           "collections of 257..400 boxes."
           " Collections of 2400 (3600) boxes with a child node of 1300+, Python-int coordinates beyond 2^53; call forms."
           " Identifiers that hash alike (-1 / -2); crowds of n frames plus 1..4 corner marks, n around round numbers and 1/r, 1/(1-r) for shares r in the source."
           " 306 collections with a stroke 0..8 ulp from the mean of the box midpoints.",
    "C15": " Gate histories on one board and on re-plugged boards; error-line / foreign / pre-release banners; "
           "every gated feature in every call form (quiet, keywords, other arguments) x 12 versions."
           " A foreign banner containing 'ebb' in another case; SerialException carrying EBUSY during the handshake."
           " Faults in reset_input_buffer() during the handshake; gated features with 20 nickname texts and 18 timeout / state pairs."
           " 748 ordered pairs of version questions that read alike when written together or swapped, the second one judged.",
    "C16": " 27 nicknames incl. full-length padded ones and names containing 'err', compared after the write "
           "and after the read-back."
           " Names from the protocol's and Python's vocabulary (EBB-2, OK, None, ...), read back by a second object on the same board; motor requests on boards reporting newer firmware."
           " Boards that are not factory-fresh (RAM 0xFF / 0x5A); second-object read-back.",
    "C18": " Tolerances and probes at 2^-60; a kept bounds object edited between calls."
           " Python ints beyond 2^53 as values, bounds and points; call forms."
           " Infinite and extreme-float values and bounds; points outside by 0.85..1.2 tolerances; PX_PER_INCH changed beforehand."
           " Each call preceded by the same request in numbers of the other kind that compare equal (3 / 3.0, 2^53+2 / its float).",
    "C19": " Port names that are prefixes of one another (COM1 / COM12); names beginning or ending with a blank."
           " Description-only boards with hardware ids like n/a; names beginning like port names or tags; pairs equal under Unicode case folding only."
           " Enumerations as generators / tuples; names containing field markers; names beginning with any short string literal of pyserial's port modules (\\\\.\\, COM, /dev/tty...)."
           " One board under 40-odd kinds of device name (pyserial's glob patterns, macOS tty./cu. pairs, Windows names).",
    "C20": " Line-break tokens with parser-normalised expectations, patterns of 2^16 / 2^17 characters, every "
           "half millisecond below 10 s."
           " Sequences of XML construct delimiters (CDATA, comments, PIs); format_hms under five caller decimal contexts; call forms."
           " Caller's time zone; equal-but-different arguments in a row (0.0 / -0.0, 1 / 1.0 / True)."
           " 350 texts built from the string literals of text_utils' own source.",
}

PENDING = "check not built yet in this revision (planned, see DESIGN.md §3); not claimed"


def main():
    checks = []
    for pid in ALL:
        if pid not in CHECKS or not os.path.exists(os.path.join(ROOT, "mc", "props",
                                                                pid.lower() + ".py")):
            continue
        technique, text, note, ref = CHECKS[pid]
        checks.append({
            "property_id": pid,
            "quick_cmd": f"./check {pid} --tier quick",
            "thorough_cmd": f"./check {pid} --tier thorough",
            "evidence_file": f"/verif/evidence/{pid}.json",
            "replay_cmd_template": f"./check {pid} --replay {{path}}",
            "engine": "mc",
            "level_claimed": {"category": "model_checking", "text": text + ADDED.get(pid, ""),
                              "design_ref": ref},
            "level_note": note,
            "technique": technique,
        })
    claimed = {c["property_id"] for c in checks}
    manifest = {
        "version": 1,
        "setup_cmd": "cd /verif && /venv/bin/python -B -c 'import mc.run, mc.fakeserial'",
        "hooks": {
            "guard": "PLOTINK_VERIF",
            "enable": "no hooks are needed: every check imports the /repo working tree directly "
                      "(sys.path[0]=/repo) and observes return values and bytes handed to an "
                      "injected fake port; the guard name is reserved and unused",
            "baseline_off_cmd": "cd /repo && /venv/bin/python -m pytest -ra -q -p no:cacheprovider "
                                "--timeout=900 --continue-on-collection-errors",
            "source_commits": [],
            "add_only": True,
        },
        "engines": [{
            "name": "mc",
            "path": "/verif/mc",
            "serves_properties": sorted(claimed),
            "kind_free_text": "hand-written explicit-state / deviation-bounded explorer for "
                              "Python: choice-point DFS over fake-serial environment answers, "
                              "BFS over operation histories, exhaustive lattice enumeration "
                              "with exact integer/rational reference machines",
        }],
        "checks": checks,
        "notes": "Fix commits in /repo are listed in /verif/KNOWN_FINDINGS.txt (fixed: lines). "
                 "exit 2 from ./check is a harness error, never a verdict.",
        "not_applicable": [{"property_id": pid, "reason": PENDING}
                           for pid in ALL if pid not in claimed],
    }
    with open(os.path.join(ROOT, "MANIFEST.json"), "w", encoding="utf-8") as handle:
        json.dump(manifest, handle, indent=1)
        handle.write("\n")
    print(f"claimed {len(claimed)}: {sorted(claimed)}")


if __name__ == "__main__":
    sys.exit(main())
