#!/venv/bin/python
"""Regenerate /verif/MANIFEST.json from the table below (keeps it schema-valid at all times).

A property is *claimed* when mc/props/cNN.py exists and it has an entry in CHECKS;
everything else is listed under not_applicable with the reason given in PENDING.
"""
import json
import os
import sys

ROOT = os.path.dirname(os.path.dirname(os.path.abspath(__file__)))

ALL = [f"C{n:02d}" for n in range(1, 21)]

# id -> (technique, level text, level note, design ref)
CHECKS = {
    "C01": ("explicit-state walk of the LT firmware machine from a boundary lattice of initial "
            "states; real predictor compared at every visited state",
            "The integer step-accumulator machine is stepped tick by tick from every (rate, "
            "accel, accumulator|clear) of a boundary lattice; at each of its states the real "
            "move_dist_lt and both deprecated aliases are called (under five ambient mpmath "
            "precisions on a sub-lattice) and must equal the machine exactly. Moves up to "
            "2^32-1 ticks use the closed integer sum, itself checked against the machine.",
            "Exhaustive only over the stated lattice (all sign/parity/zero classes, powers of "
            "two +-1, extreme magnitudes); trusts mc/firmware.py as the firmware recurrence.",
            "DESIGN.md §3 C01"),
    "C02": ("explicit-state walk of the T3 firmware machine incl. constructed zero-rate rows; "
            "real predictors compared at every visited state",
            "The third-order machine is stepped from every (rate, accel, jerk, accum|clear) of "
            "a boundary lattice plus rows constructed to make the rate zero at ticks 1, 1-2 and "
            "1-3 (all clear-rule levels); move_dist_t3, rate_t3 and the zero-jerk coincidence "
            "with move_dist_lt are checked exactly at every state, long moves by closed form.",
            "Exhaustive only over the stated lattice; trusts mc/firmware.py as the recurrence.",
            "DESIGN.md §3 C02"),
    "C03": ("explicit-state walk of the LM machine (LT + step counter); one run yields the first-"
            "tick oracle for every budget; exact bisection oracle for long moves",
            "From every initial state of the lattice the machine is stepped once; the first "
            "tick at which the steps taken reach each budget gives (duration, position, "
            "accumulator), compared exactly with calculate_lm, its legacy negative-step mirror, "
            "moveTimeLM and the move_dist_lt round trip; minimality is inherent (first tick).",
            "Exhaustive only over the stated lattice; 'steps taken' = sum of |position change| "
            "per tick under the C01 recurrence.",
            "DESIGN.md §3 C03"),
    "C17": ("explicit-state walk of the T3 machine carrying the running peak; bracket invariant "
            "evaluated at every state",
            "At every state of the stepped T3 machine (two lattices, up to 300/2000 ticks) the "
            "real max_rate_t3 must lie between both end rates and the true running peak and "
            "fall short of the peak by at most |jerk|; ~6e4 states have a strictly interior peak.",
            "Exhaustive only over the stated lattice; trusts mc/firmware.py as the recurrence.",
            "DESIGN.md §3 C17"),
    "C07": ("deviation-bounded exhaustive exploration of fake-port answers (E1) over request "
            "histories (E2), real code vs. board-model ledger",
            "Every history of 1-2 (thorough: 3) legacy requests is executed on the real "
            "ebb_serial.query/command against a scripted port for every vector of environment "
            "answers with at most 2 deviations (empty reads up to and past the retry limit, "
            "silence, error lines, exceptions at write or at any early read); one-write, "
            "no-raise, returns-text and reply-attribution are checked on every execution.",
            "Trusts the LegacyBoard reply model (OK / data+OK / no-OK set from the EBB command "
            "reference) and that pyserial faults surface as the injected exception classes.",
            "DESIGN.md §3 C07"),
}

PENDING = "check not built yet in this revision (planned, see DESIGN.md §3); not claimed"


def main():
    checks = []
    for pid in ALL:
        if pid not in CHECKS or not os.path.exists(os.path.join(ROOT, "mc", "props",
                                                                pid.lower() + ".py")):
            continue
        technique, text, note, ref = CHECKS[pid]
        checks.append({
            "property_id": pid,
            "quick_cmd": f"./check {pid} --tier quick",
            "thorough_cmd": f"./check {pid} --tier thorough",
            "evidence_file": f"/verif/evidence/{pid}.json",
            "replay_cmd_template": f"./check {pid} --replay {{path}}",
            "engine": "mc",
            "level_claimed": {"category": "model_checking", "text": text, "design_ref": ref},
            "level_note": note,
            "technique": technique,
        })
    claimed = {c["property_id"] for c in checks}
    manifest = {
        "version": 1,
        "setup_cmd": "cd /verif && /venv/bin/python -B -c 'import mc.run, mc.fakeserial'",
        "hooks": {
            "guard": "PLOTINK_VERIF",
            "enable": "no hooks are needed: every check imports the /repo working tree directly "
                      "(sys.path[0]=/repo) and observes return values and bytes handed to an "
                      "injected fake port; the guard name is reserved and unused",
            "baseline_off_cmd": "cd /repo && /venv/bin/python -m pytest -ra -q -p no:cacheprovider "
                                "--timeout=900 --continue-on-collection-errors",
            "source_commits": [],
            "add_only": True,
        },
        "engines": [{
            "name": "mc",
            "path": "/verif/mc",
            "serves_properties": sorted(claimed),
            "kind_free_text": "hand-written explicit-state / deviation-bounded explorer for "
                              "Python: choice-point DFS over fake-serial environment answers, "
                              "BFS over operation histories, exhaustive lattice enumeration "
                              "with exact integer/rational reference machines",
        }],
        "checks": checks,
        "notes": "Fix commits in /repo are listed in /verif/KNOWN_FINDINGS.txt (fixed: lines). "
                 "exit 2 from ./check is a harness error, never a verdict.",
        "not_applicable": [{"property_id": pid, "reason": PENDING}
                           for pid in ALL if pid not in claimed],
    }
    with open(os.path.join(ROOT, "MANIFEST.json"), "w", encoding="utf-8") as handle:
        json.dump(manifest, handle, indent=1)
        handle.write("\n")
    print(f"claimed {len(claimed)}: {sorted(claimed)}")


if __name__ == "__main__":
    sys.exit(main())
