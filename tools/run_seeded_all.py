#!/venv/bin/python
"""Regression over the kept seeded changes: apply each /verif/seeded/<id>/patch.diff to a
scratch export of /repo HEAD (never to /repo), run the property's check against it and record
whether a VIOLATION line was printed.  Writes seeded/RESULTS.json.

usage: run_seeded_all.py [--tier quick] [--parallel 4] [--only C07]
"""
import argparse
import json
import os
import re
import shutil
import subprocess
import tempfile
import time
from concurrent.futures import ThreadPoolExecutor

ROOT = os.path.dirname(os.path.dirname(os.path.abspath(__file__)))


def sh(cmd, cwd=None, env=None, timeout=3600):
    proc = subprocess.run(cmd, cwd=cwd, env=env, capture_output=True, text=True, check=False,
                          timeout=timeout)
    return proc.returncode, proc.stdout + proc.stderr


def run_one(name, tier):
    src = os.path.join(ROOT, "seeded", name)
    with open(os.path.join(src, "meta.json"), encoding="utf-8") as handle:
        prop = json.load(handle)["breaks_property"]
    tmp = tempfile.mkdtemp(prefix="plotink-seed.", dir="/var/tmp")
    out = {"id": name, "property": prop}
    try:
        sh(["git", "-C", "/repo", "archive", "--format=tar", "HEAD", "-o", os.path.join(tmp, "s.tar")])
        sh(["tar", "-xf", "s.tar"], cwd=tmp)
        os.remove(os.path.join(tmp, "s.tar"))
        code, text = sh(["patch", "-p1", "-i", os.path.join(src, "patch.diff")], cwd=tmp)
        out["applies"] = code == 0
        if code != 0:
            out["detected"] = False
            out["note"] = text[-200:]
            return out
        t_0 = time.time()
        code, text = sh([os.path.join(ROOT, "check"), prop, "--tier", tier],
                        env=dict(os.environ, PLOTINK_REPO=tmp,
                                 VERIF_REPLAY_DIR=os.path.join(tmp, "replays")))
        out["wall_s"] = round(time.time() - t_0, 1)
        out["exit"] = code
        out["detected"] = code == 1 and f"VIOLATION property={prop}" in text
        what = [ln.strip() for ln in text.splitlines() if ln.strip().startswith("what:")]
        out["first"] = what[0][:300] if what else ""
        for match in re.finditer(r"replay=(\S+)", text):
            if os.path.exists(match.group(1)):
                os.remove(match.group(1))
    finally:
        shutil.rmtree(tmp, ignore_errors=True)
    return out


def main():
    parser = argparse.ArgumentParser()
    parser.add_argument("--tier", default="quick")
    parser.add_argument("--parallel", type=int, default=4)
    parser.add_argument("--only")
    args = parser.parse_args()
    names = sorted(d for d in os.listdir(os.path.join(ROOT, "seeded"))
                   if os.path.isdir(os.path.join(ROOT, "seeded", d)) and
                   (not args.only or d.startswith(args.only)))
    with ThreadPoolExecutor(max_workers=args.parallel) as pool:
        results = list(pool.map(lambda n: run_one(n, args.tier), names))
    for res in results:
        print(("DETECTED " if res["detected"] else "MISSED   ") + res["id"],
              f"exit={res.get('exit')} {res.get('wall_s')}s", res.get("first", "")[:140])
    if not args.only:
        with open(os.path.join(ROOT, "seeded", "RESULTS.json"), "w", encoding="utf-8") as handle:
            json.dump({"tier": args.tier, "results": results}, handle, indent=1)
    missed = [r["id"] for r in results if not r["detected"]]
    print(f"{len(results)} seeded changes, {len(missed)} missed: {missed}")
    return 1 if missed else 0


if __name__ == "__main__":
    raise SystemExit(main())
