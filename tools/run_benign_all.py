#!/venv/bin/python
"""Regression over the kept behaviour-preserving refactors (/verif/benign/<id>/patch.diff): each is
applied to a scratch export of /repo HEAD and the property's own check must stay silent (exit 0).
Writes benign/RESULTS.json.   usage: run_benign_all.py [--parallel 4] [--tier quick]"""
import argparse
import json
import os
import shutil
import subprocess
import tempfile
import time
from concurrent.futures import ThreadPoolExecutor

ROOT = os.path.dirname(os.path.dirname(os.path.abspath(__file__)))


def sh(cmd, cwd=None, env=None):
    proc = subprocess.run(cmd, cwd=cwd, env=env, capture_output=True, text=True, check=False,
                          timeout=3600)
    return proc.returncode, proc.stdout + proc.stderr


def run_one(name, tier):
    src = os.path.join(ROOT, "benign", name)
    with open(os.path.join(src, "meta.json"), encoding="utf-8") as handle:
        prop = json.load(handle)["preserves_property"]
    tmp = tempfile.mkdtemp(prefix="plotink-ben.", dir="/var/tmp")
    out = {"id": name, "property": prop}
    try:
        sh(["git", "-C", "/repo", "archive", "--format=tar", "HEAD", "-o", os.path.join(tmp, "s.tar")])
        sh(["tar", "-xf", "s.tar"], cwd=tmp)
        os.remove(os.path.join(tmp, "s.tar"))
        code, _ = sh(["patch", "-p1", "-i", os.path.join(src, "patch.diff")], cwd=tmp)
        out["applies"] = code == 0
        t_0 = time.time()
        code, text = sh([os.path.join(ROOT, "check"), prop, "--tier", tier],
                        env=dict(os.environ, PLOTINK_REPO=tmp,
                                 VERIF_REPLAY_DIR=os.path.join(tmp, "replays")))
        out["wall_s"] = round(time.time() - t_0, 1)
        out["exit"] = code
        out["silent"] = code == 0 and "VIOLATION" not in text
        out["first"] = [ln.strip()[:300] for ln in text.splitlines() if ln.strip().startswith("what:")][:1]
    finally:
        shutil.rmtree(tmp, ignore_errors=True)
    return out


def main():
    parser = argparse.ArgumentParser()
    parser.add_argument("--tier", default="quick")
    parser.add_argument("--parallel", type=int, default=4)
    args = parser.parse_args()
    names = sorted(d for d in os.listdir(os.path.join(ROOT, "benign"))
                   if os.path.isdir(os.path.join(ROOT, "benign", d)))
    with ThreadPoolExecutor(max_workers=args.parallel) as pool:
        results = list(pool.map(lambda n: run_one(n, args.tier), names))
    for res in results:
        print(("SILENT " if res["silent"] else "ALARM  ") + res["id"], f"exit={res['exit']}",
              res["first"][:1])
    with open(os.path.join(ROOT, "benign", "RESULTS.json"), "w", encoding="utf-8") as handle:
        json.dump({"tier": args.tier, "results": results}, handle, indent=1)
    alarms = [r["id"] for r in results if not r["silent"]]
    print(f"{len(results)} refactors, {len(alarms)} alarms: {alarms}")
    return 1 if alarms else 0


if __name__ == "__main__":
    raise SystemExit(main())
