#!/venv/bin/python
"""Evaluate a behaviour-preserving refactor delivered by a sub-agent (false-alarm probe).

usage: try_benign.py <dir with patch.diff + demo.py> <PROP> [--all] [--keep-as NAME]

In scratch exports only: the patch applies, the repository's tests pass with it, demo.py exits 0
with and without it, and `./check PROP` must stay silent (exit 0) on the patched copy.  With
--all every other property's quick check is run as well (informational: the refactor was only
asked to preserve PROP).  Kept under /verif/benign/<NAME>/.
"""
import argparse
import json
import os
import shutil
import subprocess
import sys
import tempfile

ROOT = os.path.dirname(os.path.dirname(os.path.abspath(__file__)))
PY = "/venv/bin/python"


def sh(cmd, cwd=None, env=None):
    proc = subprocess.run(cmd, cwd=cwd, env=env, capture_output=True, text=True, check=False,
                          timeout=3600)
    return proc.returncode, proc.stdout + proc.stderr


def scratch():
    tmp = tempfile.mkdtemp(prefix="plotink-ben.", dir="/var/tmp")
    sh(["git", "-C", "/repo", "archive", "--format=tar", "HEAD", "-o", os.path.join(tmp, "s.tar")])
    sh(["tar", "-xf", "s.tar"], cwd=tmp)
    os.remove(os.path.join(tmp, "s.tar"))
    return tmp


def main():
    parser = argparse.ArgumentParser()
    parser.add_argument("src")
    parser.add_argument("prop")
    parser.add_argument("--all", action="store_true")
    parser.add_argument("--keep-as")
    args = parser.parse_args()
    patch, demo = os.path.join(args.src, "patch.diff"), os.path.join(args.src, "demo.py")
    clean, changed = scratch(), scratch()
    res = {"property": args.prop}
    try:
        code, out = sh(["patch", "-p1", "-i", patch], cwd=changed)
        res["applies"] = code == 0
        if code != 0:
            print(json.dumps(res), out[-300:])
            return 2
        for tree in (clean, changed):
            os.makedirs(os.path.join(tree, "SEEDED"), exist_ok=True)
            shutil.copy(demo, os.path.join(tree, "SEEDED", "demo.py"))
        code, out = sh([PY, "-m", "pytest", "-q", "-p", "no:cacheprovider"], cwd=changed)
        res["tests_pass_with_change"] = code == 0
        res["demo_with_change_exit"] = sh([PY, "SEEDED/demo.py"], cwd=changed)[0]
        res["demo_without_change_exit"] = sh([PY, "SEEDED/demo.py"], cwd=clean)[0]
        code, diff = sh(["diff", "-ru", os.path.join(clean, "plotink"), os.path.join(changed, "plotink")])
        res["changed_lines"] = sum(1 for ln in diff.splitlines()
                                   if ln[:1] in "+-" and ln[:3] not in ("+++", "---"))
        env = dict(os.environ, PLOTINK_REPO=changed, VERIF_REPLAY_DIR=os.path.join(changed, "replays"))
        props = [args.prop] + ([f"C{n:02d}" for n in range(1, 21) if f"C{n:02d}" != args.prop]
                               if args.all else [])
        res["checks"] = {}
        for prop in props:
            code, out = sh([os.path.join(ROOT, "check"), prop, "--tier", "quick"], env=env)
            what = [ln.strip()[:300] for ln in out.splitlines() if ln.strip().startswith("what:")][:2]
            res["checks"][prop] = {"exit": code, "first": what}
        print(json.dumps(res, indent=1))
        if args.keep_as:
            dest = os.path.join(ROOT, "benign", args.keep_as)
            os.makedirs(dest, exist_ok=True)
            for name in ("patch.diff", "demo.py", "notes.md"):
                if os.path.exists(os.path.join(args.src, name)):
                    shutil.copy(os.path.join(args.src, name), dest)
            with open(os.path.join(dest, "meta.json"), "w", encoding="utf-8") as handle:
                json.dump({"preserves_property": args.prop, "source": "independent sub-agent asked "
                           "for a substantial behaviour-preserving refactor", "result": res},
                          handle, indent=1)
        return 0 if res["checks"][args.prop]["exit"] == 0 else 1
    finally:
        shutil.rmtree(clean, ignore_errors=True)
        shutil.rmtree(changed, ignore_errors=True)


if __name__ == "__main__":
    sys.exit(main())
